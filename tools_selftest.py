"""tools_selftest.py [-j N] [name-prefix]: run every seeded change under seeded/ against the check that is recorded
as catching it (the first `Cxx:obligation` named in meta.json's detected_by; the whole check of the property when no
single obligation is named), on a scratch copy of /repo/pexpect carrying the patch.  Each must end with a replayed
VIOLATION (exit 1).  Scratch copies live under the system temp dir and are removed; nothing is written to evidence/.
"""
import concurrent.futures as cf
import importlib
import json
import os
import re
import shutil
import subprocess
import sys
import tempfile
import time

VERIF = os.path.dirname(os.path.abspath(__file__))
sys.path.insert(0, VERIF)


def target(meta):
    for d in meta.get('detected_by', []):
        m = re.search(r'(C\d\d)[:.]([A-Za-z]\w*)', d)
        if m:
            pid, ob = m.group(1), m.group(2)
            try:
                mod = importlib.import_module('harness.' + pid)
                names = [o.name for o in mod.OBLIGATIONS]
            except Exception:
                names = []
            if ob in names:
                return pid, ob
            return pid, None
    return meta['property'], None


def one(d):
    meta = json.load(open(os.path.join(d, 'meta.json')))
    pid, ob = target(meta)
    t = tempfile.mkdtemp(prefix='selftest_')
    try:
        shutil.copytree('/repo/pexpect', os.path.join(t, 'pexpect'))
        p = subprocess.run(['patch', '-p1', '-s', '-i', os.path.join(os.path.abspath(d), 'patch.diff')], cwd=t,
                           capture_output=True, text=True)
        if p.returncode != 0:
            return d, pid, ob, 'patch does not apply', 0
        env = dict(os.environ, SYMX_PEXPECT_ROOT=t)
        cmd = [os.path.join(VERIF, 'vcheck'), pid] + (['--only', ob] if ob else [])
        t0 = time.time()
        r = subprocess.run(cmd, cwd=VERIF, env=env, capture_output=True, text=True)
        n = sum(1 for line in r.stdout.splitlines() if line.startswith('VIOLATION'))
        ok = (r.returncode == 1 and n > 0)
        return d, pid, ob, 'caught (%d violations)' % n if ok else 'NOT caught (rc=%d)' % r.returncode, time.time() - t0
    finally:
        shutil.rmtree(t, ignore_errors=True)


def main():
    args = sys.argv[1:]
    jobs = 1
    if args[:1] == ['-j']:
        jobs = int(args[1])
        args = args[2:]
    prefix = args[0] if args else ''
    dirs = sorted(os.path.join('seeded', n) for n in os.listdir(os.path.join(VERIF, 'seeded'))
                  if n.startswith(prefix) and os.path.isfile(os.path.join(VERIF, 'seeded', n, 'meta.json')))
    os.chdir(VERIF)
    bad = 0
    with cf.ThreadPoolExecutor(max_workers=jobs) as ex:
        for d, pid, ob, verdict, secs in ex.map(one, dirs):
            print('SELFTEST %-48s %s%s: %s (%.0f s)' % (os.path.basename(d), pid, ':' + ob if ob else '', verdict, secs), flush=True)
            if not verdict.startswith('caught'):
                bad += 1
    print('SELFTEST summary: %d seeded changes, %d not caught' % (len(dirs), bad))
    return 1 if bad else 0


if __name__ == '__main__':
    sys.exit(main())
