#!/bin/sh
# run every claimed check's quick (or $1) tier and print one summary line per property
TIER=${1:-quick}
cd "$(dirname "$0")"
for id in $(.venv/bin/python -c "import json;print(' '.join(c['property_id'] for c in json.load(open('MANIFEST.json'))['checks']))"); do
  start=$(date +%s)
  ./vcheck $id --tier $TIER > /tmp/runall_$id.log 2>&1
  rc=$?
  echo "$id rc=$rc $(($(date +%s)-start))s $(tail -1 /tmp/runall_$id.log)"
done
