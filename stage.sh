#!/bin/sh
# stage.sh <Cxx> <out-suffix> <name>: copy a sub-agent's result into seeded/<name> and re-confirm its demo
# (exit 1 on a scratch copy of /repo/pexpect with the patch, exit 0 on /repo itself)
id=$1; suf=$2; n=$3
d=/verif/seeded/$n; mkdir -p $d
cp /tmp/wt_${id}_$suf/patch.diff /tmp/wt_${id}_$suf/demo.py /tmp/wt_${id}_$suf/notes.md $d/
T=$(mktemp -d /tmp/mut_XXXXXX); cp -r /repo/pexpect $T/pexpect
(cd $T && patch -p1 -s < $d/patch.diff) || echo PATCHFAIL $n
(cd $T && PYTHONPATH=$T timeout 900 /venv/bin/python $d/demo.py >/dev/null 2>&1; echo "$n patched rc=$?")
(cd /tmp && timeout 900 /venv/bin/python $d/demo.py >/dev/null 2>&1; echo "$n clean rc=$?")
rm -rf $T
