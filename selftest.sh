#!/bin/sh
# selftest.sh [name-prefix]: run, for every seeded change under seeded/, the check of the property it breaks against a
# scratch copy of /repo/pexpect carrying that patch; the check must end with a replayed VIOLATION (exit 1).
cd "$(dirname "$0")"
ok=0; bad=0
for d in seeded/${1:-}*/; do
  d=${d%/}
  [ -f "$d/meta.json" ] || continue
  pid=$(.venv/bin/python -c "import json,sys;print(json.load(open('$d/meta.json'))['property'])")
  T=$(mktemp -d /tmp/selftest_XXXXXX)
  cp -r /repo/pexpect "$T/pexpect"
  if ! (cd "$T" && patch -p1 -s < "$OLDPWD/$d/patch.diff"); then echo "SELFTEST $d: patch does not apply"; bad=$((bad+1)); rm -rf "$T"; continue; fi
  start=$(date +%s)
  SYMX_PEXPECT_ROOT="$T" ./vcheck "$pid" > "/tmp/selftest_$(basename $d).log" 2>&1
  rc=$?
  n=$(grep -c '^VIOLATION' "/tmp/selftest_$(basename $d).log")
  rm -rf "$T"
  if [ "$rc" = 1 ] && [ "$n" -gt 0 ]; then ok=$((ok+1)); echo "SELFTEST $d: caught by $pid ($n violations, $(($(date +%s)-start))s)";
  else bad=$((bad+1)); echo "SELFTEST $d: NOT caught by $pid (rc=$rc)"; fi
done
echo "SELFTEST summary: caught=$ok missed=$bad"
[ "$bad" = 0 ]
