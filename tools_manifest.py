#!/usr/bin/env python3
"""Regenerate MANIFEST.json from the table below (keeps it valid at all times)."""
import json, os, sys
HERE = os.path.dirname(os.path.abspath(__file__))
BASE_OFF = "cd /repo && /venv/bin/python -m pytest -ra -q -p no:cacheprovider --timeout=900 --continue-on-collection-errors"

CLAIMED = {}   # filled from harness modules' MANIFEST_ENTRY
NA = {}

def main():
    sys.path.insert(0, HERE)
    props = [json.loads(l) for l in open(os.path.join(HERE, 'properties.jsonl'))]
    import importlib.util
    checks, na = [], []
    for p in props:
        pid = p['id']
        path = os.path.join(HERE, 'harness', pid + '.py')
        entry = None
        if os.path.exists(path):
            src = open(path).read()
            ns = {}
            # MANIFEST_ENTRY is a plain dict literal assigned at module level
            import ast
            tree = ast.parse(src)
            for node in tree.body:
                if isinstance(node, ast.Assign) and getattr(node.targets[0], 'id', None) == 'MANIFEST_ENTRY':
                    entry = ast.literal_eval(node.value)
        if entry is None:
            na.append({'property_id': pid, 'reason': 'check not built yet in this framework (solver-based harness pending); not claimed'})
            continue
        if entry.get('not_applicable'):
            na.append({'property_id': pid, 'reason': entry['not_applicable']})
            continue
        checks.append({
            'property_id': pid,
            'quick_cmd': './vcheck %s --tier quick' % pid,
            'thorough_cmd': './vcheck %s --tier thorough' % pid,
            'evidence_file': 'evidence/%s.json' % pid,
            'replay_cmd_template': './vcheck replay {path}',
            'engine': 'symx',
            'level_claimed': {'category': 'other', 'text': entry['level_text'], 'design_ref': entry.get('design_ref', 'DESIGN.md section 4 (%s)' % pid)},
            'level_note': entry['level_note'],
            'technique': entry.get('technique', 'bounded symbolic execution of the real pexpect code (CrossHair) with z3 deciding every path; counterexamples replayed concretely'),
        })
    man = {
        'version': 1,
        'setup_cmd': './vsetup',
        'hooks': {'guard': 'PEXPECT_VERIF', 'enable': 'no source hooks: stubs are injected from the harness through module globals and documented extension points; nothing to enable',
                  'baseline_off_cmd': BASE_OFF, 'source_commits': [], 'add_only': True},
        'engines': [{'name': 'symx', 'path': 'symx/', 'serves_properties': [c['property_id'] for c in checks],
                     'kind_free_text': 'CrossHair 0.0.110 symbolic execution of /repo/pexpect bytecode + z3; own bounded string encoding (symx/bstr.py); environment stubs; concrete replay of every counterexample'}],
        'checks': checks,
        'not_applicable': na,
        'notes': 'All checks are solver-based (CrossHair+z3) on the real code; exit 0 held within stated bounds, 1 VIOLATION (replayed), 2 harness error, 3 inconclusive.',
    }
    json.dump(man, open(os.path.join(HERE, 'MANIFEST.json'), 'w'), indent=1)
    print('claimed', len(checks), 'n/a', len(na))

if __name__ == '__main__':
    main()
