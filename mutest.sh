#!/bin/sh
# mutest.sh <seeded-dir> <property-id> [extra vcheck args]: run a check against a scratch copy of /repo/pexpect
# carrying the seeded patch (SYMX_PEXPECT_ROOT override); prints the check's verdict lines.
D="$(cd "$1" && pwd)"; P="$2"; shift 2
T=$(mktemp -d /tmp/mut_XXXXXX)
cp -r /repo/pexpect "$T/pexpect"
( cd "$T" && patch -p1 -s < "$D/patch.diff" ) || { echo "patch failed"; rm -rf "$T"; exit 9; }
cd "$(dirname "$0")"
SYMX_PEXPECT_ROOT="$T" ./vcheck "$P" "$@" > "$T/out.log" 2>&1; echo "violations reported: $(grep -c "^VIOLATION" "$T/out.log")"; grep -v "^  obligation" "$T/out.log" | tail -6
rc=$?
rm -rf "$T"
