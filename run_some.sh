#!/bin/sh
# run_some.sh <tier> <id>...: run the given checks sequentially, one summary line each
TIER=$1; shift
cd "$(dirname "$0")"
for id in "$@"; do
  start=$(date +%s)
  ./vcheck $id --tier $TIER > /tmp/runsome_${TIER}_$id.log 2>&1
  rc=$?
  echo "$id tier=$TIER rc=$rc $(($(date +%s)-start))s $(grep -c '^INCONCLUSIVE' /tmp/runsome_${TIER}_$id.log) inconclusive; $(tail -1 /tmp/runsome_${TIER}_$id.log)"
done
