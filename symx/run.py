"""Check driver: schedules CrossHair analyses, replays counterexamples, writes evidence.

Exit codes: 0 property held on everything explored (within the stated bounds)
            1 violation (a VIOLATION line was printed, counterexample replayed concretely)
            2 harness error (a counterexample did not reproduce, a worker crashed, ...)
            3 inconclusive (some obligation neither confirmed nor refuted in its budget)
"""
import argparse
import concurrent.futures as cf
import hashlib
import importlib
import inspect
import json
import os
import shutil
import subprocess
import sys
import tempfile
import time

VERIF = os.path.dirname(os.path.dirname(os.path.abspath(__file__)))
if VERIF not in sys.path:
    sys.path.insert(0, VERIF)
PY = sys.executable
# The tree under analysis: /repo (editable install) unless SYMX_PEXPECT_ROOT names a scratch
# copy containing a pexpect/ package (used only by the self-test on mutated copies).
REPO = os.environ.get('SYMX_PEXPECT_ROOT') or '/repo'
if REPO != '/repo':
    sys.path.insert(0, REPO)


def log(*a):
    print(*a, flush=True)


# ------------------------------------------------------------------ sub-processes
def _run_json(argv, timeout):
    env = dict(os.environ)
    env['PYTHONPATH'] = VERIF + (os.pathsep + env['PYTHONPATH'] if env.get('PYTHONPATH') else '')
    if REPO != '/repo':
        env['PYTHONPATH'] = REPO + os.pathsep + env['PYTHONPATH']
    env.setdefault('PYTHONHASHSEED', '0')
    env['PYTHONDONTWRITEBYTECODE'] = '1'
    t0 = time.time()
    try:
        p = subprocess.run(argv, cwd=VERIF, env=env, stdout=subprocess.PIPE, stderr=subprocess.PIPE,
                           timeout=timeout)
    except subprocess.TimeoutExpired as e:
        return {'fatal': 'wall timeout after %ss' % timeout, 'wall_s': time.time() - t0,
                'stderr': (e.stderr or b'')[-800:].decode('utf-8', 'replace')}
    out = p.stdout.decode('utf-8', 'replace')
    i = out.rfind('\nRESULT:')
    if i < 0:
        return {'fatal': 'no RESULT (rc=%s)' % p.returncode, 'stderr': p.stderr.decode('utf-8', 'replace')[-1500:],
                'stdout': out[-500:]}
    r = json.loads(out[i + 8:].strip().splitlines()[0])
    if p.stderr:
        r['stderr_tail'] = p.stderr.decode('utf-8', 'replace')[-400:]
    return r


def run_worker(job):
    budget = sum(a['timeout'] for a in job['analyses'])
    return _run_json([PY, '-W', 'ignore', '-m', 'symx.worker', json.dumps(job)], timeout=budget * 2.5 + 60)


def run_replay(job, timeout=120):
    return _run_json([PY, '-W', 'ignore', '-m', 'symx.replay', json.dumps(job)], timeout=timeout)


# ------------------------------------------------------------------ helpers
def resolve(qual):
    """'pexpect.expect.Expecter.new_data' -> object (from the working tree) or None"""
    parts = qual.split('.')
    for k in range(len(parts), 0, -1):
        try:
            obj = importlib.import_module('.'.join(parts[:k]))
        except Exception:
            continue
        try:
            for a in parts[k:]:
                obj = inspect.getattr_static(obj, a) if False else getattr(obj, a)
            return obj
        except AttributeError:
            return None
    return None


def source_sha(obj):
    try:
        if isinstance(obj, property):
            obj = obj.fget
        src = inspect.getsource(obj)
        fn = inspect.getsourcefile(obj)
    except Exception:
        return None, None
    return hashlib.sha256(src.encode()).hexdigest()[:16], fn


def load_findings(pid):
    path = os.path.join(VERIF, 'known_findings.json')
    if not os.path.exists(path):
        return []
    data = json.load(open(path))
    return [f for f in data.get('findings', []) if f.get('property') == pid]


def main_post(open_codes):
    if not open_codes:
        return '_ > 0'
    return '_ > 0 or ' + ' or '.join('_ == %d' % c for c in sorted(open_codes))


# ------------------------------------------------------------------ the check
def check(pid, tier, only=None, jobs=None, seed=0, quiet=False):
    t0 = time.time()
    jobs = jobs or min(16, os.cpu_count() or 4)
    modname = 'harness.%s' % pid
    hmod = importlib.import_module(modname)
    obligations = [o for o in hmod.OBLIGATIONS if tier in o.tiers and (not only or o.name in only)]
    findings = load_findings(pid)
    open_f = [f for f in findings if f.get('status') == 'open']
    workdir = tempfile.mkdtemp(prefix='vcheck_%s_' % pid)
    if not only:
        shutil.rmtree(os.path.join(VERIF, 'replays', pid), ignore_errors=True)
    status = {'violations': [], 'inconclusive': [], 'harness_errors': [], 'known_seen': []}
    ev_obl = []
    samples = []
    entered_all = set()

    # --- functions encoded: must exist in the working tree
    encodes = list(getattr(hmod, 'ENCODES', []))
    enc_info = []
    for q in encodes:
        obj = resolve(q)
        if obj is None:
            status['inconclusive'].append('encoded function %s no longer exists in the working tree' % q)
            enc_info.append({'name': q, 'missing': True})
            continue
        sha, fn = source_sha(obj)
        enc_info.append({'name': q, 'sha256_16': sha, 'file': fn})
        if fn and not fn.startswith(REPO + '/') and '/ptyprocess/' not in fn:
            status['harness_errors'].append('%s resolved outside %s: %s' % (q, REPO, fn))

    # --- translator validation (runs concurrently with the analyses, see below)
    tv = {'cases': 0, 'mismatches': 0, 'skipped': 'harness does not use the BStr encoding'}
    want_tv = bool(getattr(hmod, 'USES_BSTR', True)) and not only

    # --- build jobs
    joblist = []
    for ob in obligations:
        params, timeout, split = ob.for_tier(tier)
        codes = {f['code'] for f in open_f if f.get('obligation') == ob.name}
        unlisted = [c for c in ob.findings if c not in codes]
        post = main_post(codes)
        for label, _ in ob.partitions(tier):
            joblist.append(('main', ob, {'module': modname, 'obligation': ob.name, 'tier': tier, 'partition': label,
                                         'workdir': workdir,
                                         'analyses': [{'kind': 'main', 'post': post, 'timeout': timeout}]}))
        # twins + findings run over the first partition set as a whole? -> use each partition's label 'all' if unsplit
        tw_t = ob.twin_timeout or max(30, min(120, timeout))
        if tier == 'thorough':
            tw_t = ob.thorough.get('twin_timeout', tw_t)
        plabels = ['all'] + [l for l, _ in ob.partitions(tier) if l != 'all']
        if len(plabels) > 9:
            # witness search: the whole domain, then a sample of single partitions (spread over the list); a tag
            # still unwitnessed after that may be witnessed by a declared concrete dry run that lies inside the
            # tier's symbolic domain (see below)
            rest = plabels[1:]
            step = max(1, len(rest) // 8)
            plabels = ['all'] + rest[::step][:8]
        # Witness search: one process per partition would multiply work; instead search partitions in order
        # inside one job list (the runner stops asking once every tag has a witness).
        for what in [('twin', t) for t in sorted(ob.tags_for(tier))] + [('finding', c) for c in sorted(codes)]:
            joblist.append(('twins', ob, {'module': modname, 'obligation': ob.name, 'tier': tier, 'partition': None,
                                          'workdir': workdir, 'plabels': plabels, 'tw_t': tw_t, 'what': what}))

    def do(item):
        kind, ob, job = item
        if kind == 'main':
            return item, run_worker(job)
        # one witness search (tag or listed finding): the whole domain first, then single partitions
        k, v = job['what']
        found = {}
        agg = []
        need = {(k, v)}
        for pl in job['plabels']:
            j = {'module': job['module'], 'obligation': job['obligation'], 'tier': job['tier'], 'partition': pl,
                 'workdir': job['workdir'],
                 'analyses': [{'kind': '%s:%d' % (k, v), 'post': '_ != %d' % v, 'timeout': job['tw_t']}]}
            r = run_worker(j)
            agg.append((pl, r))
            res = (r.get('results') or [None])[0]
            if res and res['verdict'] == 'refuted' and res.get('args') is not None:
                found[(k, v)] = (pl, res)
                need = set()
                break
        return item, {'found': found, 'need': need, 'agg': agg}

    results = []
    with cf.ThreadPoolExecutor(max_workers=jobs) as ex:
        tvf = None
        if want_tv:
            tvf = ex.submit(_run_json, [PY, '-W', 'ignore', '-m', 'symx.run', 'conformance',
                                        'quick' if tier == 'quick' else 'full'], 900)
        futs = [ex.submit(do, it) for it in joblist]
        for f in cf.as_completed(futs):
            results.append(f.result())
        if tvf is not None:
            tv = tvf.result()
            if tv.get('fatal') or tv.get('mismatches'):
                status['harness_errors'].append('BStr conformance failed: %s' % json.dumps(tv)[:400])

    # --- interpret
    tot = {'paths': 0, 'solver_calls': 0, 'solver_time_s': 0.0, 'cpu_s': 0.0}
    n_obl = 0
    n_dis = 0
    witnessed = set()
    replay_dir = os.path.join(VERIF, 'replays', pid) if REPO == '/repo' else os.path.join(tempfile.gettempdir(), 'symx_selftest_replays', pid)

    def acc(res):
        for k in tot:
            tot[k] += res.get(k, 0) or 0

    missing_twins = []
    for (kind, ob, job), r in sorted(results, key=lambda x: (x[0][1].name, x[0][0], str(x[0][2].get('partition')))):
        if kind == 'main':
            n_obl += 1
            label = '%s[%s]' % (ob.name, job['partition'])
            if 'fatal' in r or not r.get('results'):
                status['inconclusive'].append('%s: worker failed: %s' % (label, (r.get('fatal') or '')[:300]))
                ev_obl.append({'obligation': label, 'verdict': 'worker-failed', 'detail': (r.get('fatal') or '')[:300]})
                continue
            res = r['results'][0]
            acc(res)
            entry = {'obligation': label, 'post': res['post'], 'verdict': res['verdict'], 'paths': res['paths'],
                     'solver_calls': res['solver_calls'], 'solver_time_s': res['solver_time_s'], 'cpu_s': res['cpu_s']}
            if res['verdict'] == 'confirmed':
                n_dis += 1
            elif res['verdict'] == 'refuted':
                entry['message'] = res['message'][:400]
                if res.get('args') is None:
                    status['harness_errors'].append('%s: counterexample arguments not parseable: %s' % (label, res['message'][:200]))
                else:
                    rj = {'module': modname, 'obligation': ob.name, 'tier': tier, 'partition': job['partition'],
                          'args': res['args'], 'post': res['post']}
                    rp = run_replay(rj)
                    entry['replay'] = {k: rp.get(k) for k in ('value', 'exception', 'post_holds', 'fatal')}
                    if rp.get('harness_fault'):
                        status['harness_errors'].append(
                            '%s: the harness does not fit this code shape (%s) - nothing decided for this obligation'
                            % (label, (rp.get('exception') or '')[:200]))
                    elif rp.get('post_holds') is False and 'fatal' not in rp:
                        os.makedirs(replay_dir, exist_ok=True)
                        h = hashlib.sha256(json.dumps(rj, sort_keys=True).encode()).hexdigest()[:10]
                        path = os.path.join(replay_dir, '%s-%s.json' % (ob.name, h))
                        rj['property'] = pid
                        rj['observed'] = entry['replay']
                        rj['symbolic_message'] = res['message'][:600]
                        json.dump(rj, open(path, 'w'), indent=1)
                        status['violations'].append((label, path, entry['replay']))
                        entry['violation_replay'] = path
                    else:
                        status['harness_errors'].append(
                            '%s: counterexample did not reproduce concretely (args=%s, symbolic: %s, concrete: %s)'
                            % (label, json.dumps(res['args']), res['message'][:200], json.dumps(entry['replay'])))
            else:
                status['inconclusive'].append('%s: %s (%s)' % (label, res['verdict'], res['message'][:200]))
            ev_obl.append(entry)
        else:
            for pl, wr in r['agg']:
                for res in wr.get('results', []):
                    acc(res)
                if 'fatal' in wr:
                    status['inconclusive'].append('%s twins[%s]: worker failed: %s' % (ob.name, pl, wr['fatal'][:300]))
            for (k, v), (pl, res) in sorted(r['found'].items()):
                rj = {'module': modname, 'obligation': ob.name, 'tier': tier, 'partition': pl,
                      'args': res['args'], 'post': '_ != %d' % v}
                rp = run_replay(rj)
                ok = rp.get('value') == v
                entered_all.update(rp.get('entered', []))
                if k == 'twin':
                    if ok:
                        witnessed.add((ob.name, v))
                        samples.append({'obligation': ob.name, 'tag': ob.tags[v], 'witness_args': res['args']})
                    else:
                        status['harness_errors'].append('%s: witness for tag %d (%s) did not replay: %s'
                                                        % (ob.name, v, ob.tags[v], json.dumps({x: rp.get(x) for x in ('value', 'exception', 'fatal')})))
                else:
                    f = next(f for f in open_f if f.get('obligation') == ob.name and f['code'] == v)
                    if ok:
                        status['known_seen'].append((f, res['args']))
                    else:
                        status['harness_errors'].append('%s: known-finding %d counterexample did not replay: %s'
                                                        % (ob.name, v, json.dumps({x: rp.get(x) for x in ('value', 'exception', 'fatal')})))
            for (k, v) in sorted(r['need']):
                if k == 'twin':
                    missing_twins.append((ob, v))
                # a listed finding that is no longer refuted: the defect is gone; say nothing

    # --- declared concrete dry runs (no solver): must all pass, and count towards "entered"
    dry_info = None
    if hasattr(hmod, 'dry_runs') and (not only or missing_twins):
        dry_info = run_replay({'mode': 'dry', 'module': modname}, timeout=600)
        entered_all.update(dry_info.get('entered', []))
        if dry_info.get('fatal') or dry_info.get('n_dry_failures'):
            status['harness_errors'].append('concrete dry runs failed: %s' % json.dumps(
                {k: dry_info.get(k) for k in ('fatal', 'n_dry_failures', 'dry_failures')})[:600])

    # --- tags the solver's witness search did not reach within its budget: a declared concrete run of the same
    # obligation that returns the tag AND lies inside this tier's symbolic domain is a witness just as well
    for ob, v in missing_twins:
        col = 2 if tier == 'quick' else 3
        hit = [t for t in ((dry_info or {}).get('tags') or []) if t[0] == ob.name and t[1] == v and t[col]]
        if hit:
            witnessed.add((ob.name, v))
            samples.append({'obligation': ob.name, 'tag': ob.tags[v], 'witness_args': hit[0][4],
                            'witness_from': 'declared concrete run inside the symbolic domain'})
        else:
            status['inconclusive'].append('%s: vacuity twin for tag %d (%s) found no witness - branch unreachable or precondition vacuous'
                                          % (ob.name, v, ob.tags[v]))

    # --- encoded functions actually entered (concrete dry runs = the replayed witnesses)
    not_entered = []
    for e in enc_info:
        if e.get('missing'):
            continue
        short = e['name']
        import re as _re
        short = _re.sub(r'\._[A-Za-z0-9]+?__(\w+)$', r'.__\1', short)   # private (name-mangled) methods
        hit = any(x == short or x.endswith('.' + short.split('.', 1)[-1]) or short.endswith(x) for x in entered_all)
        e['entered_in_dry_run'] = bool(hit)
        if not hit:
            not_entered.append(short)
    # informational only: which witness inputs the solver picks varies from run to run, so this must not decide the
    # exit status (the deterministic part - every declared dry run passes - does)
    if not_entered and obligations and not only:
        log('NOTE property=%s encoded functions not entered by this run\'s witness/dry runs: %s' % (pid, ', '.join(not_entered)))

    shutil.rmtree(workdir, ignore_errors=True)

    # --- representation probes: counterexamples only count if the internals the harness relies on are as assumed
    probe_info = run_replay({'mode': 'probe', 'module': modname}, timeout=120) if getattr(hmod, 'PROBES', None) else {'probes': {}}
    failed_probes = sorted(k for k, v in (probe_info.get('probes') or {}).items() if not v)
    if probe_info.get('fatal'):
        failed_probes = ['probe run failed: %s' % probe_info['fatal'][:100]]
    if failed_probes and (status['violations'] or status['known_seen']):
        for label, path, rep in status['violations']:
            status['harness_errors'].append('%s: counterexample not reported - representation probe(s) %s failed: the '
                                            'internals this harness injects states through have changed, nothing is '
                                            'decided' % (label, ', '.join(failed_probes)))
        status['violations'] = []
        status['known_seen'] = []
    elif failed_probes:
        log('NOTE property=%s representation probe(s) failed: %s' % (pid, ', '.join(failed_probes)))

    # --- report
    printed = set()
    for f, args in status['known_seen']:
        if f['what'] not in printed:
            printed.add(f['what'])
            log('KNOWN-FINDING: property=%s %s' % (pid, f['what']))
    for label, path, rep in status['violations']:
        log('VIOLATION property=%s replay=%s' % (pid, path))
        log('  obligation %s: %s' % (label, json.dumps(rep)))
    for m in status['harness_errors']:
        log('HARNESS-ERROR property=%s %s' % (pid, m))
    for m in status['inconclusive']:
        log('INCONCLUSIVE property=%s %s' % (pid, m))

    wall = time.time() - t0
    bounds = {}
    for ob in obligations:
        params, timeout, split = ob.for_tier(tier)
        bounds[ob.name] = {'params': {k: p.describe() for k, p in params.items()}, 'pre': ob.pre,
                           'per_condition_timeout_cpu_s': timeout, 'partitioned_on': split, 'note': ob.note}
    evidence = {
        'property_id': pid, 'tier': tier, 'seed': int(seed), 'level': 'other',
        'coverage': {
            'explanation': 'bounded symbolic verification: CrossHair 0.0.110 executes the real pexpect bytecode '
                           'from /repo symbolically, z3 decides every branch; "confirmed" = every feasible path '
                           'within the stated bounds satisfies the postcondition; counterexamples are replayed '
                           'concretely before being reported',
            'obligations': n_obl, 'discharged': n_dis,
            'evaluations': int(tot['paths']),
            'distinct_nontrivial': len(witnessed),
            'rule': 'evaluations = symbolic paths explored by CrossHair (each stands for all inputs driving it); '
                    'distinct_nontrivial = number of distinct (obligation, branch tag) pairs for which the solver '
                    'produced a witness input that was replayed concretely (vacuity twins)',
            'samples': samples[:12] + [e for e in ev_obl[:6]],
            'functions_encoded': enc_info,
            'functions_not_entered_by_witness_or_dry_runs': not_entered,
            'bounds': bounds,
            'obligation_results': ev_obl,
            'solver_queries': int(tot['solver_calls']), 'solver_time_s': round(tot['solver_time_s'], 2),
            'cpu_s': round(tot['cpu_s'], 1),
            'translator_validation': tv,
            'representation_probes': probe_info.get('probes'),
            'concrete_dry_runs': None if dry_info is None else {k: dry_info.get(k) for k in ('dry_runs', 'n_dry_failures')},
            'stubs': getattr(hmod, 'STUBS', []),
            'outside_claim': getattr(hmod, 'OUTSIDE', []),
            'known_findings_seen': [f['what'] for f, _ in status['known_seen']],
            'inconclusive': status['inconclusive'], 'harness_errors': status['harness_errors'],
            'checker_cmd': './vcheck %s --tier %s' % (pid, tier),
            'trusted_base': ['CrossHair 0.0.110', 'z3 4.x (z3-solver wheel)', 'symx.bstr encoding (validated exhaustively on small strings each run)', 'CPython 3.12'],
        },
        'assumptions': getattr(hmod, 'ASSUMPTIONS', []),
        'wall_s': round(wall, 1),
        'violations': len(status['violations']),
    }
    os.makedirs(os.path.join(VERIF, 'evidence'), exist_ok=True)
    if not only and REPO == '/repo':
        json.dump(evidence, open(os.path.join(VERIF, 'evidence', '%s.json' % pid), 'w'), indent=1)
    elif not only:
        # self-test on a mutated scratch copy: never touch the evidence of the real tree
        json.dump(evidence, open(os.path.join(tempfile.gettempdir(), 'symx_selftest_%s.json' % pid), 'w'), indent=1)
    log('%s tier=%s obligations=%d discharged=%d witnesses=%d paths=%d solver_queries=%d solver_time=%.1fs wall=%.1fs'
        % (pid, tier, n_obl, n_dis, len(witnessed), tot['paths'], tot['solver_calls'], tot['solver_time_s'], wall))
    if status['violations']:
        return 1
    if status['harness_errors']:
        return 2
    if status['inconclusive']:
        return 3
    return 0


def replay_file(path):
    job = json.load(open(path))
    rp = run_replay({k: job[k] for k in ('module', 'obligation', 'tier', 'partition', 'args', 'post')})
    log(json.dumps({k: rp.get(k) for k in ('value', 'exception', 'post_holds', 'fatal', 'trace')}, indent=1))
    if rp.get('post_holds') is False:
        log('VIOLATION property=%s replay=%s' % (job.get('property'), path))
        return 1
    return 0


def main(argv=None):
    ap = argparse.ArgumentParser()
    ap.add_argument('what')
    ap.add_argument('arg', nargs='?')
    ap.add_argument('--tier', default=os.environ.get('VERIF_TIER', 'quick'))
    ap.add_argument('--only', action='append')
    ap.add_argument('--jobs', type=int)
    a = ap.parse_args(argv)
    if a.what == 'replay':
        return replay_file(a.arg)
    if a.what == 'conformance':
        from symx import conformance
        r = conformance.run(level=a.arg or 'full')
        log('\nRESULT:' + json.dumps(r))
        return 2 if r['mismatches'] else 0
    if a.what == 'selftest':
        from symx import selftest
        return selftest.main(a.arg, a.tier)
    seed = int(os.environ.get('VERIF_SEED', '0') or 0)
    return check(a.what, a.tier, only=a.only, jobs=a.jobs, seed=seed)


if __name__ == '__main__':
    sys.exit(main())
