"""Bounded explicit strings for use inside CrossHair.

A BStr is an immutable text/bytes look-alike whose length is a z3 Int term and whose
contents are a fixed-capacity vector of z3 Int terms (code points / byte values).
Every operation builds raw z3 terms under NoTracing() and returns CrossHair
SymbolicInt/SymbolicBool, so no path forks happen inside string operations: forks
only occur at the `if`s of the code under analysis.

Outside CrossHair (concrete replay) `mk()` returns ordinary str/bytes and nothing in
this module is used.
"""
import z3
from crosshair.tracers import NoTracing, is_tracing
from crosshair.libimpl.builtinslib import SymbolicInt, SymbolicBool

MAXCP = 0x110000

# Exact set of code points for which str.isspace() is True (computed, not assumed).
_WS = [c for c in range(MAXCP) if chr(c).isspace()]
# str.splitlines() boundaries
_LINEBREAKS = [0x0A, 0x0B, 0x0C, 0x0D, 0x1C, 0x1D, 0x1E, 0x85, 0x2028, 0x2029]


def _z(x):
    """python int/bool | SymbolicInt/SymbolicBool | z3 term -> z3 Int term (NoTracing only)."""
    if isinstance(x, SymbolicInt):
        return x.var
    if isinstance(x, SymbolicBool):
        return z3.If(x.var, z3.IntVal(1), z3.IntVal(0))
    if isinstance(x, bool):
        return z3.IntVal(int(x))
    if isinstance(x, int):
        return z3.IntVal(x)
    if isinstance(x, z3.ExprRef):
        return x
    if hasattr(x, '__index__'):
        return z3.IntVal(x.__index__())
    raise TypeError('BStr index must be int, not %s' % type(x).__name__)


def _clamp(x, lo, hi):
    return z3.If(x < lo, lo, z3.If(x > hi, hi, x))


def _norm(i, ln):
    """Python slice-bound normalisation."""
    return z3.If(i < 0, _clamp(ln + i, 0, ln), _clamp(i, 0, ln))


def _simp(e):
    return z3.simplify(e)


def _is_const(e):
    return z3.is_int_value(e)


class BStr:
    """Immutable bounded symbolic string. kind 't' = text (str), 'b' = bytes."""
    __slots__ = ('n', 'ch', 'kind')

    def __init__(self, n, ch, kind='t'):
        self.n = n
        self.ch = ch
        self.kind = kind

    # ---- CrossHair integration -------------------------------------------------
    def __ch_pytype__(self):
        return str if self.kind == 't' else bytes

    def __ch_realize__(self):
        from crosshair.statespace import context_statespace
        with NoTracing():
            sp = context_statespace()
            n = sp.find_model_value(self.n)
            cs = [sp.find_model_value(c) for c in self.ch[:n]]
        if self.kind == 't':
            return ''.join(chr(c) for c in cs)
        return bytes(cs)

    def __deepcopy__(self, memo):
        return self

    def __copy__(self):
        return self

    def __reduce__(self):
        raise TypeError('BStr cannot be pickled (symbolic)')

    __hash__ = None

    # ---- construction ---------------------------------------------------------
    @staticmethod
    def lit(s):
        with NoTracing():
            if isinstance(s, str):
                return BStr(z3.IntVal(len(s)), [z3.IntVal(ord(c)) for c in s], 't')
            return BStr(z3.IntVal(len(s)), [z3.IntVal(c) for c in bytes(s)], 'b')

    def _coerce(self, o):
        """NoTracing only: other operand -> BStr of the same kind or None."""
        if type(o) is BStr:
            return o if o.kind == self.kind else None
        if self.kind == 't' and type(o) is str:
            return BStr(z3.IntVal(len(o)), [z3.IntVal(ord(c)) for c in o], 't')
        if self.kind == 'b' and type(o) in (bytes, bytearray):
            return BStr(z3.IntVal(len(o)), [z3.IntVal(c) for c in bytes(o)], 'b')
        return None

    def _need(self, o, what):
        c = self._coerce(o)
        if c is None:
            tn = 'str' if self.kind == 't' else 'bytes'
            raise TypeError('%s: expected %s, got %s' % (what, tn, _tname(o)))
        return c

    def _at(self, idx):
        """z3 term for character at z3-int index idx (-1 when out of capacity)."""
        if _is_const(idx):
            k = idx.as_long()
            return self.ch[k] if 0 <= k < len(self.ch) else z3.IntVal(-1)
        e = z3.IntVal(-1)
        for i in reversed(range(len(self.ch))):
            e = z3.If(idx == i, self.ch[i], e)
        return e

    # ---- basic protocol ------------------------------------------------------
    def __len__(self):
        with NoTracing():
            if _is_const(self.n):
                return self.n.as_long()
            return SymbolicInt(self.n)

    def __bool__(self):
        if len(self) != 0:
            return True
        return False

    def __add__(self, o):
        with NoTracing():
            o2 = self._coerce(o)
            if o2 is None:
                return NotImplemented
            return self._cat(o2)

    def __radd__(self, o):
        with NoTracing():
            o2 = self._coerce(o)
            if o2 is None:
                return NotImplemented
            return o2._cat(self)

    def _cat(self, o):
        cap = len(self.ch) + len(o.ch)
        ch = []
        for i in range(cap):
            ai = self.ch[i] if i < len(self.ch) else z3.IntVal(-1)
            ch.append(_simp(z3.If(i < self.n, ai, o._at(_simp(i - self.n)))))
        return BStr(_simp(self.n + o.n), ch, self.kind)

    def __getitem__(self, k):
        with NoTracing():
            if isinstance(k, slice):
                if k.step is not None and k.step != 1:
                    raise NotImplementedError('BStr: extended slices')
                lo = _norm(_z(k.start), self.n) if k.start is not None else z3.IntVal(0)
                hi = _norm(_z(k.stop), self.n) if k.stop is not None else self.n
                lo = _simp(lo)
                ln = _simp(z3.If(hi - lo < 0, 0, hi - lo))
                return BStr(ln, [_simp(self._at(_simp(lo + i))) for i in range(len(self.ch))], self.kind)
            idx = _z(k)
            inrange = _simp(z3.And(idx >= -self.n, idx < self.n))
            pos = _simp(z3.If(idx < 0, idx + self.n, idx))
            item = _simp(self._at(pos))
            ok = SymbolicBool(inrange) if not z3.is_true(inrange) and not z3.is_false(inrange) else z3.is_true(inrange)
        if not ok:
            raise IndexError('string index out of range')
        with NoTracing():
            if self.kind == 'b':
                return SymbolicInt(item) if not _is_const(item) else item.as_long()
            return BStr(z3.IntVal(1), [item], 't')

    def __iter__(self):
        i = 0
        while i < len(self):
            yield self[i]
            i += 1

    def _eq_term(self, o):
        cap = max(len(self.ch), len(o.ch))
        conj = [self.n == o.n]
        for i in range(cap):
            a = self.ch[i] if i < len(self.ch) else None
            b = o.ch[i] if i < len(o.ch) else None
            if a is None or b is None:
                conj.append(self.n <= i)
            else:
                conj.append(z3.Or(i >= self.n, a == b))
        return _simp(z3.And(*conj))

    def __eq__(self, o):
        with NoTracing():
            o2 = self._coerce(o)
            if o2 is None:
                return False
            t = self._eq_term(o2)
            if z3.is_true(t):
                return True
            if z3.is_false(t):
                return False
            return SymbolicBool(t)

    def __ne__(self, o):
        with NoTracing():
            o2 = self._coerce(o)
            if o2 is None:
                return True
            t = _simp(z3.Not(self._eq_term(o2)))
            if z3.is_true(t):
                return True
            if z3.is_false(t):
                return False
            return SymbolicBool(t)

    def _lt_term(self, o, or_equal):
        """z3 term: self < o (or <=) in lexicographic code point order"""
        cap = max(len(self.ch), len(o.ch))
        # walk from the last position to the first: result if all earlier positions are equal
        res = (self.n <= o.n) if or_equal else (self.n < o.n)      # one is a prefix of the other
        for i in reversed(range(cap)):
            a = self.ch[i] if i < len(self.ch) else z3.IntVal(-1)
            b = o.ch[i] if i < len(o.ch) else z3.IntVal(-1)
            ina = i < self.n
            inb = i < o.n
            # at position i: if either string has ended, the prefix rule (already in res for this depth) applies
            res = z3.If(z3.And(ina, inb), z3.If(a < b, True, z3.If(a > b, False, res)),
                        ((self.n <= o.n) if or_equal else (self.n < o.n)))
        return _simp(res)

    def __lt__(self, o):
        with NoTracing():
            o2 = self._coerce(o)
            if o2 is None:
                return NotImplemented
            return self._ret_bool(self._lt_term(o2, False))

    def __le__(self, o):
        with NoTracing():
            o2 = self._coerce(o)
            if o2 is None:
                return NotImplemented
            return self._ret_bool(self._lt_term(o2, True))

    def __gt__(self, o):
        with NoTracing():
            o2 = self._coerce(o)
            if o2 is None:
                return NotImplemented
            return self._ret_bool(o2._lt_term(self, False))

    def __ge__(self, o):
        with NoTracing():
            o2 = self._coerce(o)
            if o2 is None:
                return NotImplemented
            return self._ret_bool(o2._lt_term(self, True))

    # ---- searching -----------------------------------------------------------
    def _find_term(self, s, st, en, reverse=False):
        cap = len(self.ch)
        res = z3.IntVal(-1)
        order = range(cap + 1) if reverse else reversed(range(cap + 1))
        for i in order:
            conj = [i >= st, i + s.n <= en]
            for j in range(len(s.ch)):
                if i + j < cap:
                    conj.append(z3.Or(j >= s.n, self.ch[i + j] == s.ch[j]))
                else:
                    conj.append(s.n <= j)
            res = z3.If(z3.And(*conj), z3.IntVal(i), res)
        return _simp(res)

    def _bounds(self, start, end):
        # CPython's ADJUST_INDICES: negative bounds are shifted and floored at 0, `end` is
        # capped at len, but `start` is NOT capped (so ''.find('', 1) == -1).
        if start is not None:
            a = _z(start)
            st = z3.If(a < 0, z3.If(a + self.n < 0, 0, a + self.n), a)
        else:
            st = z3.IntVal(0)
        en = _norm(_z(end), self.n) if end is not None else self.n
        return _simp(st), _simp(en)

    def _ret_int(self, t):
        return t.as_long() if _is_const(t) else SymbolicInt(t)

    def _ret_bool(self, t):
        t = _simp(t)
        if z3.is_true(t):
            return True
        if z3.is_false(t):
            return False
        return SymbolicBool(t)

    def find(self, sub, start=None, end=None):
        with NoTracing():
            s = self._need(sub, 'find')
            st, en = self._bounds(start, end)
            return self._ret_int(self._find_term(s, st, en))

    def rfind(self, sub, start=None, end=None):
        with NoTracing():
            s = self._need(sub, 'rfind')
            st, en = self._bounds(start, end)
            return self._ret_int(self._find_term(s, st, en, reverse=True))

    def index(self, sub, start=None, end=None):
        r = self.find(sub, start, end)
        if r < 0:
            raise ValueError('substring not found')
        return r

    def __contains__(self, sub):
        return self.find(sub) >= 0

    def count_occurrences_nonoverlap_upto1(self, sub):
        raise NotImplementedError

    def startswith(self, p):
        with NoTracing():
            s = self._need(p, 'startswith')
            conj = [s.n <= self.n]
            for j in range(len(s.ch)):
                if j < len(self.ch):
                    conj.append(z3.Or(j >= s.n, self.ch[j] == s.ch[j]))
                else:
                    conj.append(s.n <= j)
            return self._ret_bool(z3.And(*conj))

    def endswith(self, p):
        with NoTracing():
            s = self._need(p, 'endswith')
            conj = [s.n <= self.n]
            off = _simp(self.n - s.n)
            for j in range(len(s.ch)):
                conj.append(z3.Or(j >= s.n, self._at(_simp(off + j)) == s.ch[j]))
            return self._ret_bool(z3.And(*conj))

    # ---- character classes -----------------------------------------------------
    def isspace(self):
        with NoTracing():
            conj = [self.n > 0]
            for i, c in enumerate(self.ch):
                conj.append(z3.Or(i >= self.n, z3.Or(*[c == w for w in _WS if self.kind == 't' or w < 128])))
            return self._ret_bool(z3.And(*conj))

    def _ws_term(self, c):
        return z3.Or(*[c == w for w in _WS if self.kind == 't' or w < 128])

    def _lead_ws(self):
        """z3 term: number of leading whitespace characters"""
        # first index that is not whitespace (or n)
        e = self.n
        for i in reversed(range(len(self.ch))):
            e = z3.If(z3.And(i < self.n, z3.Not(self._ws_term(self.ch[i]))), z3.IntVal(i), e)
        return _simp(e)

    def _trail_end(self):
        """z3 term: index just past the last non-whitespace character (0 if none)"""
        e = z3.IntVal(0)
        for i in range(len(self.ch)):
            e = z3.If(z3.And(i < self.n, z3.Not(self._ws_term(self.ch[i]))), z3.IntVal(i + 1), e)
        return _simp(e)

    def strip(self, chars=None):
        if chars is not None:
            raise NotImplementedError('BStr.strip(chars)')
        with NoTracing():
            lo, hi = self._lead_ws(), self._trail_end()
            hi = _simp(z3.If(hi < lo, lo, hi))
            return BStr(_simp(hi - lo), [_simp(self._at(_simp(lo + i))) for i in range(len(self.ch))], self.kind)

    def lstrip(self, chars=None):
        if chars is not None:
            raise NotImplementedError('BStr.lstrip(chars)')
        with NoTracing():
            lo = self._lead_ws()
            return BStr(_simp(self.n - lo), [_simp(self._at(_simp(lo + i))) for i in range(len(self.ch))], self.kind)

    def rstrip(self, chars=None):
        if chars is not None:
            raise NotImplementedError('BStr.rstrip(chars)')
        with NoTracing():
            hi = self._trail_end()
            return BStr(hi, list(self.ch), self.kind)

    def replace(self, old, new, count=-1):
        """single-character (or single-byte) substitution only: length-preserving, fork-free"""
        if count != -1:
            raise NotImplementedError('BStr.replace with a count')
        with NoTracing():
            o, n = self._need(old, 'replace'), self._need(new, 'replace')
            if not (_is_const(o.n) and _is_const(n.n) and o.n.as_long() == 1 and n.n.as_long() == 1):
                raise NotImplementedError('BStr.replace: only one-character old/new strings are modelled')
            oc, nc = o.ch[0], n.ch[0]
            return BStr(self.n, [z3.If(c == oc, nc, c) for c in self.ch], self.kind)

    def isascii(self):
        with NoTracing():
            return self._ret_bool(z3.And(*[z3.Or(i >= self.n, c < 128) for i, c in enumerate(self.ch)]))

    # ---- codecs (identity range only; everything else raises like CPython) ----------
    def _all_below(self, lim):
        with NoTracing():
            return self._ret_bool(z3.And(*[z3.Or(i >= self.n, z3.And(c >= 0, c < lim)) for i, c in enumerate(self.ch)]))

    def encode(self, encoding='utf-8', errors='strict'):
        if self.kind != 't':
            raise AttributeError("'bytes' object has no attribute 'encode'")
        enc = encoding.lower().replace('_', '-')
        if enc in ('ascii', 'us-ascii', 'utf-8', 'utf8'):
            lim = 128
        elif enc in ('latin-1', 'latin1', 'iso-8859-1'):
            lim = 256
        else:
            raise NotImplementedError('BStr.encode(%r)' % encoding)
        if not self._all_below(lim):
            if enc in ('utf-8', 'utf8'):
                raise NotImplementedError('BStr.encode: non-ASCII text in utf-8 is outside the encoding model')
            raise UnicodeEncodeError(enc, '?', 0, 1, 'ordinal not in range(%d)' % lim)
        return BStr(self.n, self.ch, 'b')

    def decode(self, encoding='utf-8', errors='strict'):
        if self.kind != 'b':
            raise AttributeError("'str' object has no attribute 'decode'")
        enc = encoding.lower().replace('_', '-')
        if enc in ('ascii', 'us-ascii', 'utf-8', 'utf8'):
            lim = 128
        elif enc in ('latin-1', 'latin1', 'iso-8859-1'):
            lim = 256
        else:
            raise NotImplementedError('BStr.decode(%r)' % encoding)
        if not self._all_below(lim):
            if enc in ('utf-8', 'utf8'):
                raise NotImplementedError('BStr.decode: non-ASCII bytes in utf-8 are outside the encoding model')
            raise UnicodeDecodeError(enc, b'?', 0, 1, 'ordinal not in range(%d)' % lim)
        return BStr(self.n, self.ch, 't')

    # ---- misc str API -----------------------------------------------------------
    def join(self, parts):
        out = None
        first = True
        for p in parts:
            if first:
                out = _as_b(p, self.kind)
                first = False
            else:
                out = out + self + p
        if out is None:
            return BStr.lit('' if self.kind == 't' else b'')
        return out

    def splitlines(self, keepends=False):
        """Exact str.splitlines for text; forks once per character (bounded by capacity)."""
        if self.kind != 't':
            raise NotImplementedError
        out = []
        start = 0
        i = 0
        n = len(self)
        while i < n:
            c = self[i]
            if c == '\r':
                if i + 1 < n and self[i + 1] == '\n':
                    out.append(self[start:(i + 2 if keepends else i)])
                    i += 2
                else:
                    out.append(self[start:(i + 1 if keepends else i)])
                    i += 1
                start = i
            elif _is_linebreak(c):
                out.append(self[start:(i + 1 if keepends else i)])
                i += 1
                start = i
            else:
                i += 1
        if start < n:
            out.append(self[start:])
        return out

    def __repr__(self):
        # constant placeholder: only ever ends up inside diagnostic messages
        return "'<symbolic text>'" if self.kind == 't' else "b'<symbolic bytes>'"

    def __str__(self):
        raise TypeError('str() of a symbolic string is outside the encoding model')

    def __format__(self, spec):
        raise TypeError('formatting a symbolic string is outside the encoding model')

    def __mod__(self, other):
        raise TypeError('%-formatting a symbolic string is outside the encoding model')


def _is_linebreak(c):
    with NoTracing():
        t = z3.Or(*[c.ch[0] == b for b in _LINEBREAKS])
        r = c._ret_bool(t)
    return True if r else False


def _isb(x):
    """True iff x is a BStr - decided on the real type (CrossHair's patched isinstance
    follows __ch_pytype__ and would answer for str/bytes instead)."""
    with NoTracing():
        return type(x) is BStr


def _tname(o):
    if _isb(o):
        return 'str' if o.kind == 't' else 'bytes'
    return type(o).__name__


def _as_b(x, kind='t'):
    if _isb(x):
        return x
    return BStr.lit(x)


def tracing():
    try:
        return is_tracing()
    except Exception:
        return False


def mk(n, cs, kind='t', maxch=None):
    """Build a string from a length and a list of code points.

    Under CrossHair: a BStr over the symbolic ints.  Concretely: a real str/bytes.
    """
    if not tracing():
        vals = [int(c) for c in cs[:int(n)]]
        if kind == 't':
            return ''.join(chr(c) for c in vals)
        return bytes(vals)
    with NoTracing():
        from crosshair.statespace import context_statespace
        lim = MAXCP if kind == 't' else 256
        if maxch is not None:
            lim = maxch
        zs = [_z(c) for c in cs]
        space = context_statespace()
        for c in zs:
            if not _is_const(c):
                # assumption on a fresh, otherwise unconstrained variable: a valid code point
                space.add(z3.And(c >= 0, c < lim))
            elif not (0 <= c.as_long() < lim):
                # CrossHair may realize an argument before the body runs ("premature realize");
                # a value outside the assumed domain is an unmet precondition, not a path.
                from crosshair.util import IgnoreAttempt
                raise IgnoreAttempt('character outside the assumed range')
        return BStr(_z(n), zs, kind)


def lit(s):
    """Literal that is a BStr under CrossHair and itself otherwise."""
    if not tracing():
        return s
    return BStr.lit(s)


def is_text(x):
    if _isb(x):
        return x.kind == 't'
    return type(x) is str


class PyBuf:
    """Pure-Python replacement for io.StringIO / io.BytesIO holding a BStr.

    Complete for the file API pexpect uses (write at position, seek, read, tell,
    getvalue, truncate), so a mutated pexpect that leaves the position somewhere
    else is still modelled faithfully.
    """
    kind = 't'

    def __init__(self, initial=None):
        self.v = BStr.lit('' if self.kind == 't' else b'')
        self.p = 0
        if initial is not None:
            self.v = _as_b(initial, self.kind)

    def _chk(self, s):
        if _isb(s):
            if s.kind != self.kind:
                raise TypeError('buffer type mismatch')
            return s
        if self.kind == 't' and type(s) is str:
            return BStr.lit(s)
        if self.kind == 'b' and type(s) in (bytes, bytearray):
            return BStr.lit(bytes(s))
        raise TypeError('string argument expected, got %r' % type(s).__name__)

    def write(self, s):
        s = self._chk(s)
        ln = len(s)
        cur = len(self.v)
        if self.p == cur:
            self.v = self.v + s
        elif self.p > cur:
            if self.kind == 't':
                raise NotImplementedError('PyBuf: write past end')
            raise NotImplementedError('PyBuf: write past end')
        else:
            self.v = self.v[:self.p] + s + self.v[self.p + ln:]
        self.p = self.p + ln
        return ln

    def tell(self):
        return self.p

    def seek(self, pos, whence=0):
        if whence == 0:
            if pos < 0:
                raise ValueError('Negative seek position %r' % (pos,))
            self.p = pos
        elif whence == 2:
            self.p = len(self.v) + pos
        elif whence == 1:
            self.p = self.p + pos
        else:
            raise ValueError('invalid whence')
        return self.p

    def read(self, size=-1):
        if size is None or size < 0:
            r = self.v[self.p:]
        else:
            r = self.v[self.p:self.p + size]
        self.p = self.p + len(r)
        return r

    def getvalue(self):
        return self.v

    def truncate(self, size=None):
        if size is None:
            size = self.p
        self.v = self.v[:size]
        return size

    def flush(self):
        pass

    def close(self):
        pass


class PyBufB(PyBuf):
    kind = 'b'


def buffer_type(kind='t'):
    """The buffer class to install on a spawn object in the current mode."""
    import io
    if tracing():
        return PyBuf if kind == 't' else PyBufB
    return io.StringIO if kind == 't' else io.BytesIO
