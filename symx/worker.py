"""One CrossHair analysis process.

usage: python -m symx.worker '<json job>'
job = {module, obligation, tier, partition, analyses: [{kind, post, timeout}], workdir}
Prints one JSON document (last line of stdout, prefixed by RESULT:).
"""
import ast
import collections
import importlib
import importlib.util
import json
import os
import sys
import time
import traceback

VERIF = os.path.dirname(os.path.dirname(os.path.abspath(__file__)))
if VERIF not in sys.path:
    sys.path.insert(0, VERIF)


def _install_solver_timer(stats):
    import crosshair.statespace as ss
    orig = ss.solver_is_sat

    def timed(solver, *exprs):
        t0 = time.perf_counter()
        try:
            return orig(solver, *exprs)
        finally:
            stats['solver_calls'] += 1
            stats['solver_time_s'] += time.perf_counter() - t0
    ss.solver_is_sat = timed


def parse_call_args(message, flatnames):
    """Extract literal arguments from CrossHair's 'when calling ob(...)' message."""
    key = 'when calling '
    i = message.find(key)
    if i < 0:
        return None
    s = message[i + len(key):]
    # find the balanced call expression
    depth = 0
    end = None
    instr = None
    for k, c in enumerate(s):
        if instr:
            if c == instr:
                instr = None
            continue
        if c in '"\'':
            instr = c
        elif c == '(':
            depth += 1
        elif c == ')':
            depth -= 1
            if depth == 0:
                end = k + 1
                break
    if end is None:
        return None
    try:
        node = ast.parse(s[:end], mode='eval').body
        vals = {}
        for n, a in zip(flatnames, node.args):
            vals[n] = ast.literal_eval(a)
        for kw in node.keywords:
            vals[kw.arg] = ast.literal_eval(kw.value)
        if set(vals) != set(flatnames):
            return None
        return vals
    except Exception:
        return None


def load_wrapper(path, name):
    spec = importlib.util.spec_from_file_location(name, path)
    mod = importlib.util.module_from_spec(spec)
    sys.modules[name] = mod
    spec.loader.exec_module(mod)
    return mod


def main():
    job = json.loads(sys.argv[1])
    from symx.spec import wrapper_source
    out = {'job': {k: job[k] for k in ('module', 'obligation', 'tier', 'partition')}, 'results': []}
    t_start = time.time()
    try:
        hmod = importlib.import_module(job['module'])
        ob = next(o for o in hmod.OBLIGATIONS if o.name == job['obligation'])
        params = ob.params_for(job['tier'], job['partition'])
        from crosshair.core_and_libs import analyze_function, run_checkables
        from crosshair.options import AnalysisOptionSet, AnalysisKind
        from crosshair.statespace import MessageType
        stats = collections.Counter()
        stats['solver_time_s'] = 0.0
        _install_solver_timer(stats)
        from symx import chpatch
        chpatch.install()
        setup = getattr(hmod, 'worker_setup', None)
        if setup:
            setup()
        for k, an in enumerate(job['analyses']):
            src, flat = wrapper_source(job['module'], ob, params, an['post'], VERIF)
            fname = 'w_%s_%s_%d_%d' % (job['obligation'], abs(hash(job['partition'])) % 100000, os.getpid(), k)
            path = os.path.join(job['workdir'], fname + '.py')
            with open(path, 'w') as f:
                f.write(src)
            wmod = load_wrapper(path, fname)
            cstats = collections.Counter()
            opts = AnalysisOptionSet(
                analysis_kind=[AnalysisKind.PEP316],
                per_condition_timeout=float(an['timeout']),
                per_path_timeout=float(an.get('per_path_timeout', max(10.0, an['timeout'] / 2.0))),
                report_all=True,
                stats=cstats,
            )
            before_calls, before_time = stats['solver_calls'], stats['solver_time_s']
            c0, w0 = time.process_time(), time.time()
            res = {'kind': an['kind'], 'post': an['post'], 'flat': flat}
            try:
                # side-effect wall (as the crosshair CLI engages it): code under analysis that tries to fork,
                # open files for writing, connect ... is stopped with SideEffectDetected instead of doing it
                from crosshair.auditwall import enabled_auditwall
                with enabled_auditwall():
                    msgs = run_checkables(analyze_function(wmod.ob, opts))
            except BaseException as e:  # CrossHairInternal and friends
                res.update(verdict='error', message='%s: %s' % (type(e).__name__, e),
                           trace=traceback.format_exc()[-2000:])
                msgs = []
            res['cpu_s'] = round(time.process_time() - c0, 3)
            res['wall_s'] = round(time.time() - w0, 3)
            res['paths'] = int(cstats.get('num_paths', 0))
            res['solver_calls'] = int(stats['solver_calls'] - before_calls)
            res['solver_time_s'] = round(stats['solver_time_s'] - before_time, 3)
            if 'verdict' not in res:
                verdict, message, args = 'unknown', '', None
                for m in msgs:
                    st = m.state
                    if st == MessageType.CONFIRMED:
                        verdict, message = 'confirmed', m.message
                    elif st in (MessageType.POST_FAIL, MessageType.EXEC_ERR, MessageType.POST_ERR):
                        verdict, message = 'refuted', m.message
                        args = parse_call_args(m.message, flat)
                        res['state'] = st.name
                        res['trace'] = (getattr(m, 'traceback', '') or '')[-1800:]
                        break
                    elif st == MessageType.PRE_UNSAT:
                        verdict, message = 'pre_unsat', m.message
                    elif st == MessageType.CANNOT_CONFIRM:
                        verdict, message = 'unknown', m.message
                    else:
                        verdict, message = 'error', '%s: %s' % (st.name, m.message)
                        break
                if not msgs:
                    verdict, message = 'unknown', 'no message from CrossHair'
                res.update(verdict=verdict, message=message[:1500], args=args)
            out['results'].append(res)
            try:
                os.unlink(path)
            except OSError:
                pass
    except BaseException as e:
        out['fatal'] = '%s: %s\n%s' % (type(e).__name__, e, traceback.format_exc()[-3000:])
    out['wall_s'] = round(time.time() - t_start, 3)
    sys.stdout.write('\nRESULT:' + json.dumps(out) + '\n')
    sys.stdout.flush()


if __name__ == '__main__':
    main()
