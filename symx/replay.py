"""Concrete replay of one obligation on literal arguments - no solver, no tracing.

usage: python -m symx.replay '<json {module, obligation, tier, partition, args, post}>'
Prints RESULT:{value|exception, post_holds, entered:[qualified names entered]}
"""
import importlib
import importlib.util
import json
import os
import sys
import tempfile
import traceback

VERIF = os.path.dirname(os.path.dirname(os.path.abspath(__file__)))
if VERIF not in sys.path:
    sys.path.insert(0, VERIF)


def run(job):
    from symx.spec import wrapper_source
    hmod = importlib.import_module(job['module'])
    ob = next(o for o in hmod.OBLIGATIONS if o.name == job['obligation'])
    params = ob.params_for(job['tier'], job['partition'])
    src, flat = wrapper_source(job['module'], ob, params, job.get('post', '_ > 0'), VERIF)
    ns = {}
    exec(compile(src, '<replay-wrapper>', 'exec'), ns)
    entered = set()
    want = set(job.get('watch', []))

    def prof(frame, event, arg):
        if event == 'call':
            co = frame.f_code
            fn = co.co_filename
            if '/pexpect/' in fn or '/ptyprocess/' in fn:
                mod = frame.f_globals.get('__name__', '?')
                entered.add(mod + '.' + getattr(co, 'co_qualname', co.co_name))
    out = {}
    sys.setprofile(prof)
    try:
        try:
            v = ns['ob'](**job['args'])
            out['value'] = v
        finally:
            sys.setprofile(None)
        out['post_holds'] = bool(eval(job.get('post', '_ > 0'), {'_': v}))
    except BaseException as e:
        sys.setprofile(None)
        out['exception'] = '%s: %s' % (type(e).__name__, e)
        out['trace'] = traceback.format_exc()[-1500:]
        out['post_holds'] = False
        out['harness_fault'] = harness_fault(e)
    out['entered'] = sorted(entered)
    return out


def harness_fault(e):
    """True when the exception says something about the harness rather than about pexpect: it was raised by
    harness/stub code itself, or pexpect used a part of a stubbed object's API that the stub does not model
    (e.g. a refactoring that calls socket.send in a loop instead of sendall).  Such a run decides nothing."""
    tb = e.__traceback__
    last = None
    while tb is not None:
        last = tb
        tb = tb.tb_next
    fn = last.tb_frame.f_code.co_filename if last is not None else ''
    in_verif = fn.startswith(VERIF + os.sep)
    if type(e).__name__ in ('Skip', 'Hang') and type(e).__module__.startswith('harness'):
        return True        # the harness's own "outside the modelled domain" signal escaped its guard: a harness bug
    if isinstance(e, (NotImplementedError, ImportError, NameError)) and in_verif:
        return True
    if isinstance(e, AttributeError):
        obj = getattr(e, 'obj', None)
        mod = getattr(type(obj), '__module__', '') if obj is not None else ''
        if isinstance(obj, type):
            mod = getattr(obj, '__module__', '')
        if in_verif or mod.startswith(('harness', 'symx')):
            return True
        # attribute of the code under test that no longer exists (internal renamed by a refactoring)
        objmod = getattr(obj, '__module__', '') if obj is not None else ''
        if in_verif and (mod.startswith('pexpect') or str(objmod).startswith('pexpect')):
            return True
    if isinstance(e, TypeError) and in_verif and 'argument' in str(e):
        return True        # signature of an internal changed
    return False


def dry(job):
    """concrete dry runs declared by the harness (hmod.dry_runs() -> iterable of (obligation name, kwargs)):
    executed without the solver under a call profiler; every result must be a positive tag."""
    hmod = importlib.import_module(job['module'])
    entered = set()

    def prof(frame, event, arg):
        if event == 'call':
            co = frame.f_code
            fn = co.co_filename
            if '/pexpect/' in fn or '/ptyprocess/' in fn:
                entered.add(frame.f_globals.get('__name__', '?') + '.' + getattr(co, 'co_qualname', co.co_name))
    n = 0
    bad = []
    tags = []          # (obligation, tag returned, inside the quick domain, inside the thorough domain, kwargs)
    for name, kw in hmod.dry_runs():
        fn = getattr(hmod, name)
        n += 1
        sys.setprofile(prof)
        try:
            try:
                v = fn(**kw)
            finally:
                sys.setprofile(None)
            if not (isinstance(v, int) and v > 0):
                bad.append([name, repr(kw)[:200], repr(v)])
            else:
                ob = getattr(fn, 'obligation', None)
                if ob is not None:
                    tags.append([name, v, ob.in_domain('quick', kw), ob.in_domain('thorough', kw), repr(kw)[:300]])
        except BaseException as e:
            sys.setprofile(None)
            bad.append([name, repr(kw)[:200], '%s: %s' % (type(e).__name__, e)])
    return {'dry_runs': n, 'dry_failures': bad[:5], 'n_dry_failures': len(bad), 'entered': sorted(entered), 'tags': tags}


def probe(job):
    import harness.probes as P
    hmod = importlib.import_module(job['module'])
    out = {}
    for name in getattr(hmod, 'PROBES', []):
        out[name] = P.run_probe(getattr(P, name))
    return {'probes': out}


def main():
    job = json.loads(sys.argv[1])
    if job.get('mode') == 'probe':
        sys.stdout.write('\nRESULT:' + json.dumps(probe(job)) + '\n')
        return
    if job.get('mode') == 'dry':
        sys.stdout.write('\nRESULT:' + json.dumps(dry(job)) + '\n')
        return
    if os.path.isfile(sys.argv[1]):
        job = json.load(open(sys.argv[1]))
    out = run(job)
    sys.stdout.write('\nRESULT:' + json.dumps(out) + '\n')


if __name__ == '__main__':
    if len(sys.argv) > 1 and os.path.isfile(sys.argv[1]):
        job = json.load(open(sys.argv[1]))
        out = run(job)
        sys.stdout.write('\nRESULT:' + json.dumps(out) + '\n')
    else:
        main()
