"""Translator validation for the BStr/PyBuf encoding library.

Every operation is evaluated on z3 *constants* (so the If-terms are folded by z3's
simplifier exactly as the solver would evaluate them) for all strings over a small
alphabet up to a small length and all integer arguments in a small range, and the
result is compared with CPython's own str/bytes/io result.
"""
import io
import itertools
import time

import z3
from symx.bstr import BStr, PyBuf, PyBufB, _simp


def _conc(x):
    if type(x) is BStr:
        n = _simp(x.n).as_long()
        cs = [_simp(c).as_long() for c in x.ch[:n]]
        return ''.join(map(chr, cs)) if x.kind == 't' else bytes(cs)
    if hasattr(x, 'var'):
        v = _simp(x.var)
        if z3.is_true(v):
            return True
        if z3.is_false(v):
            return False
        return v.as_long()
    if isinstance(x, list):
        return [_conc(i) for i in x]
    return x


def _pad(s, extra):
    """BStr literal with `extra` unused capacity slots holding junk (must never leak)."""
    b = BStr.lit(s)
    junk = z3.IntVal(ord('z') if isinstance(s, str) else 122)
    return BStr(b.n, b.ch + [junk] * extra, b.kind)


def run(level='quick'):
    t0 = time.time()
    maxlen, rng = {'quick': (2, range(-3, 4)), 'full': (3, range(-4, 5)), 'deep': (4, range(-6, 7))}[level]
    alpha = 'ab'
    strs = [''.join(p) for n in range(maxlen + 1) for p in itertools.product(alpha, repeat=n)]
    subs = [''.join(p) for n in range(3) for p in itertools.product(alpha, repeat=n)]
    cases = 0
    bad = []

    def cmp(what, got, want):
        nonlocal cases
        cases += 1
        try:
            g = _conc(got)
        except Exception as e:
            g = 'ERR %r' % (e,)
        if g != want or type(g) is not type(want):
            if len(bad) < 5:
                bad.append('%s: encoding=%r cpython=%r' % (what, g, want))

    for kind in ('t', 'b'):
        conv = (lambda s: s) if kind == 't' else (lambda s: s.encode())
        for s in strs:
            cs = conv(s)
            B = _pad(cs, 2)
            cmp('len(%r)' % cs, len(B), len(cs))
            for a in rng:
                cmp('%r[%d:]' % (cs, a), B[a:], cs[a:])
                cmp('%r[:%d]' % (cs, a), B[:a], cs[:a])
                try:
                    want = cs[a]
                    want = want if kind == 't' else want
                except IndexError:
                    want = 'IndexError'
                try:
                    got = _conc(B[a])
                except IndexError:
                    got = 'IndexError'
                cmp('%r[%d]' % (cs, a), got, want)
                for b in rng:
                    cmp('%r[%d:%d]' % (cs, a, b), B[a:b], cs[a:b])
            for t in subs:
                ct = conv(t)
                T = _pad(ct, 1)
                cmp('%r+%r' % (cs, ct), B + T, cs + ct)
                cmp('%r==%r' % (cs, ct), B == T, cs == ct)
                cmp('%r!=%r' % (cs, ct), B != T, cs != ct)
                cmp('%r==lit %r' % (cs, ct), B == ct, cs == ct)
                cmp('%r<%r' % (cs, ct), B < T, cs < ct)
                cmp('%r<=%r' % (cs, ct), B <= T, cs <= ct)
                cmp('%r>%r' % (cs, ct), B > T, cs > ct)
                cmp('%r>=%r' % (cs, ct), B >= T, cs >= ct)
                cmp('%r.startswith(%r)' % (cs, ct), B.startswith(T), cs.startswith(ct))
                cmp('%r.endswith(%r)' % (cs, ct), B.endswith(T), cs.endswith(ct))
                cmp('%r in %r' % (ct, cs), T in B, ct in cs)
                cmp('%r.find(%r)' % (cs, ct), B.find(T), cs.find(ct))
                cmp('%r.rfind(%r)' % (cs, ct), B.rfind(T), cs.rfind(ct))
                for a in rng:
                    cmp('%r.find(%r,%d)' % (cs, ct, a), B.find(T, a), cs.find(ct, a))
                    cmp('%r.rfind(%r,%d)' % (cs, ct, a), B.rfind(T, a), cs.rfind(ct, a))
                    if level != 'quick' or len(cs) <= 1:
                        for b in rng:
                            cmp('%r.find(%r,%d,%d)' % (cs, ct, a, b), B.find(T, a, b), cs.find(ct, a, b))
        # buffers
        Buf, Ref = (PyBuf, io.StringIO) if kind == 't' else (PyBufB, io.BytesIO)
        short = [conv(x) for x in ('', 'a', 'ab', 'bab')]
        for w1 in short:
            for w2 in short:
                for pos in range(0, 5):
                    for rd in (-1, 0, 1, 2, 9):
                        pb, rf = Buf(), Ref()
                        pb.write(_pad(w1, 1)), rf.write(w1)
                        cmp('tell after write', pb.tell(), rf.tell())
                        if pos <= len(w1):
                            pb.seek(pos), rf.seek(pos)
                            cmp('read(%d)@%d of %r' % (rd, pos, w1), pb.read(rd), rf.read(rd))
                            cmp('tell after read', pb.tell(), rf.tell())
                            pb.seek(pos), rf.seek(pos)
                            pb.write(_pad(w2, 1)), rf.write(w2)
                            cmp('getvalue after %r@%d<-%r' % (w1, pos, w2), pb.getvalue(), rf.getvalue())
                            cmp('tell after overwrite', pb.tell(), rf.tell())
                            pb.seek(0), rf.seek(0)
                            cmp('read all', pb.read(), rf.read())
                            pb.truncate(pos), rf.truncate(pos)
                            cmp('truncate', pb.getvalue(), rf.getvalue())
    # character classes / splitlines on text with the characters that matter
    for c in [' ', '\t', '\n', '\r', '\x0b', '\x0c', '\x1c', '\x1f', '\x85', '\xa0', ' ', '　', 'a', '\\', '"', "'", '\x00', '\U0010ffff']:
        cmp('isspace %r' % c, _pad(c, 1).isspace(), c.isspace())
    for s in ['', 'a', 'a\n', 'a\r\nb', '\r', '\n\r', 'a\x0bb', 'a ', 'ab\rc\n', '\r\n\r\n']:
        cmp('splitlines %r' % s, BStr.lit(s).splitlines(), s.splitlines())
    for s in ['', ' ', 'a', ' a', 'a ', ' a b \t', '\n\n', '\ta\x0b', 'a\\ ', '\u2003x\u2003']:
        cmp('strip %r' % s, _pad(s, 2).strip(), s.strip())
        cmp('lstrip %r' % s, _pad(s, 2).lstrip(), s.lstrip())
        cmp('rstrip %r' % s, _pad(s, 2).rstrip(), s.rstrip())
    for s in ['', 'a', 'aba', 'bab', 'abba', 'xyz']:
        for o, n in (('a', 'b'), ('b', 'a'), ('a', 'a'), ('q', 'a')):
            cmp('replace %r %r->%r' % (s, o, n), _pad(s, 2).replace(o, n), s.replace(o, n))
            cmp('replace bytes %r %r->%r' % (s, o, n), _pad(s.encode(), 2).replace(o.encode(), n.encode()),
                s.encode().replace(o.encode(), n.encode()))
    for s in ['', 'abc', 'a\x7f']:
        cmp('encode ascii %r' % s, BStr.lit(s).encode('ascii'), s.encode('ascii'))
        cmp('decode ascii %r' % s, BStr.lit(s.encode()).decode('ascii'), s)
    return {'cases': cases, 'mismatches': len(bad), 'first': bad[:3], 'level': level,
            'alphabet': alpha, 'max_len': maxlen, 'int_range': [rng[0], rng[-1]], 'wall_s': round(time.time() - t0, 2)}
