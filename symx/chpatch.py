"""Adjustments to CrossHair's default interceptions (installed by the worker before analysis).

1. '%' formatting: CrossHair deep-realizes the right operand, i.e. it asks the solver for concrete
   values of every symbolic attribute reachable from the formatted object and then enumerates the
   alternatives.  pexpect builds its EOF/TIMEOUT messages with '%s' % searcher / '%r' % text, which
   would turn every raise path into an enumeration of code points.  We realize only the top-level
   CrossHair values (needed by %d etc.) and let objects format themselves through their own
   __str__/__repr__ under tracing.  A BStr formats as a constant placeholder via __repr__ and
   refuses __str__, so message *content* over symbolic text is outside every claim while the
   control flow stays fully symbolic.
3. int(): objects whose type defines __symx_int__ (harness value types that carry a symbolic integer)
   convert through that hook instead of CPython's int(), which rejects a non-int from __int__.
4. str.join over a list holding BStr values returns the BStr concatenation.
2. repr(): CrossHair may skip the call and return an unconstrained symbolic string reconciled
   later (a parallel fork per call).  We always call the object's __repr__.
"""
from crosshair.tracers import NoTracing


def install():
    import crosshair.core as core
    from crosshair.core import realize
    from crosshair.util import CrossHairValue
    from crosshair.libimpl.builtinslib import invoke_dunder

    def shallow(x):
        with NoTracing():
            is_ch = isinstance(x, CrossHairValue)
        return realize(x) if is_ch else x

    def percent_format(self, other):
        if not isinstance(self, str):
            raise TypeError
        with NoTracing():
            t = type(other)
        if t is tuple:
            arg = tuple(shallow(i) for i in other)
        elif t is dict:
            arg = {k: shallow(v) for k, v in other.items()}
        else:
            arg = shallow(other)
        return self.__mod__(arg)

    def plain_repr(obj):
        return invoke_dunder(obj, '__repr__')

    orig_int = core._PATCH_REGISTRATIONS[int]
    _NOBASE = object()

    busy = [False]

    def int_with_hook(val=0, base=_NOBASE):
        # harness value types may carry a symbolic integer (C18's NumStr = decimal text of n):
        # CPython's int() insists on a real int from __int__, so hand the symbolic one back here.
        with NoTracing():
            hook = getattr(type(val), '__symx_int__', None)
            nested = busy[0]
            if nested:
                # CrossHair's own patch ends with a plain int(val) on an already concrete value;
                # that call is intercepted again and lands here: run the real builtin.
                return int(val) if base is _NOBASE else int(val, base)
        if hook is not None and base is _NOBASE:
            return hook(val)
        busy[0] = True
        try:
            if base is _NOBASE:
                return orig_int(val)
            return orig_int(val, base)
        finally:
            busy[0] = False

    orig_join = core._PATCH_REGISTRATIONS.get(str.join)

    def join_with_bstr(self, itr):
        # ''.join([...]) over bounded symbolic strings (REPLWrapper.run_command, run()): delegate to BStr.join
        from symx.bstr import BStr
        items = list(itr)
        with NoTracing():
            has = any(type(x) is BStr for x in items)
        if has:
            return BStr.lit(self).join(items)
        if orig_join is not None:
            return orig_join(self, items)
        return self.join(items)

    core._PATCH_REGISTRATIONS[str.join] = join_with_bstr
    core._PATCH_REGISTRATIONS[str.__mod__] = percent_format
    core._PATCH_REGISTRATIONS[repr] = plain_repr
    core._PATCH_REGISTRATIONS[int] = int_with_hook
