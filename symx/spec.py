"""Declarative obligations.

A harness module defines functions decorated with @obligation.  Each function takes
high-level parameters (Text/Bytes/Int/Bool/OptInt) and returns an int:

    > 0   property holds on this path; the value is a branch tag (for vacuity twins)
    == 0  property violated
    < 0   property violated inside the region of known finding number -value

The runner generates, per obligation, a flat wrapper function over ints/bools whose
PEP-316 docstring carries the bounds as `pre:` lines and the verdict as `post:`.
"""
import itertools

SKIP = 1  # conventional tag for "input outside the stated domain" (an assumption)


class Param:
    def flat(self, name):
        """[(flatname, annotation, [pre strings])]"""
        raise NotImplementedError

    def build(self, name):
        """expression text rebuilding the high-level value from flat names"""
        raise NotImplementedError

    def describe(self):
        raise NotImplementedError

    def domain(self):
        """finite list of concrete values for partitioning, or None"""
        return None

    def contains(self, v):
        """is the concrete value v inside this parameter's declared domain?"""
        return False


class _Str(Param):
    kind = 't'

    def __init__(self, cap, min=0, maxch=None):
        self.cap = cap
        self.min = min
        self.maxch = maxch

    def flat(self, name):
        lim = self.maxch if self.maxch is not None else (0x110000 if self.kind == 't' else 256)
        out = [('%s_n' % name, 'int', ['%d <= %s_n <= %d' % (self.min, name, self.cap)])]
        for i in range(self.cap):
            out.append(('%s_%d' % (name, i), 'int', []))  # range asserted inside mk()
        return out

    def build(self, name):
        return 'mk(%s_n, [%s], %r, %r)' % (name, ', '.join('%s_%d' % (name, i) for i in range(self.cap)),
                                           self.kind, self.maxch)

    def contains(self, v):
        if not isinstance(v, str if self.kind == 't' else bytes):
            return False
        lim = self.maxch if self.maxch is not None else (0x110000 if self.kind == 't' else 256)
        return self.min <= len(v) <= self.cap and all((ord(c) if self.kind == 't' else c) < lim for c in v)

    def describe(self):
        lim = self.maxch if self.maxch is not None else (0x110000 if self.kind == 't' else 256)
        return '%s len %d..%d chars 0..%d' % ('text' if self.kind == 't' else 'bytes', self.min, self.cap, lim - 1)


class Text(_Str):
    kind = 't'


class Bytes(_Str):
    kind = 'b'


class Int(Param):
    def __init__(self, lo=None, hi=None):
        self.lo = lo
        self.hi = hi

    def flat(self, name):
        pre = []
        if self.lo is not None and self.hi is not None:
            pre.append('%d <= %s <= %d' % (self.lo, name, self.hi))
        elif self.lo is not None:
            pre.append('%d <= %s' % (self.lo, name))
        elif self.hi is not None:
            pre.append('%s <= %d' % (name, self.hi))
        return [(name, 'int', pre)]

    def build(self, name):
        return name

    def contains(self, v):
        return (type(v) is int and (self.lo is None or self.lo <= v) and (self.hi is None or v <= self.hi))

    def describe(self):
        return 'int %s..%s' % ('-inf' if self.lo is None else self.lo, '+inf' if self.hi is None else self.hi)

    def domain(self):
        if self.lo is not None and self.hi is not None and self.hi - self.lo < 256:
            return list(range(self.lo, self.hi + 1))
        return None


class Bool(Param):
    def flat(self, name):
        return [(name, 'bool', [])]

    def build(self, name):
        return name

    def contains(self, v):
        return type(v) is bool

    def describe(self):
        return 'bool'

    def domain(self):
        return [False, True]


class OptInt(Param):
    """None or an int in lo..hi (either bound may be None)."""

    def __init__(self, lo=None, hi=None):
        self.lo = lo
        self.hi = hi

    def flat(self, name):
        conds = []
        if self.lo is not None:
            conds.append('%d <= %s' % (self.lo, name))
        if self.hi is not None:
            conds.append('%s <= %d' % (name, self.hi))
        pre = []
        if conds:
            pre.append('%s is None or (%s)' % (name, ' and '.join(conds)))
        return [(name, 'Optional[int]', pre)]

    def build(self, name):
        return name

    def contains(self, v):
        return v is None or (type(v) is int and (self.lo is None or self.lo <= v) and (self.hi is None or v <= self.hi))

    def describe(self):
        return 'None | int %s..%s' % ('-inf' if self.lo is None else self.lo, '+inf' if self.hi is None else self.hi)

    def domain(self):
        if self.lo is not None and self.hi is not None and self.hi - self.lo < 256:
            return [None] + list(range(self.lo, self.hi + 1))
        return None


class Const(Param):
    """A fixed value (used internally for partitions)."""

    def __init__(self, value):
        self.value = value

    def flat(self, name):
        return []

    def build(self, name):
        return repr(self.value)

    def contains(self, v):
        return v == self.value

    def describe(self):
        return 'const %r' % (self.value,)


class Obligation:
    def __init__(self, fn, params, tags, timeout, tiers, split, pre, findings, thorough, twin_timeout, note, quick_omit_tags=()):
        self.fn = fn
        self.name = fn.__name__
        self.params = params
        self.tags = dict(tags)
        self.timeout = timeout
        self.tiers = tiers
        self.split = list(split)
        self.pre = list(pre)
        self.findings = dict(findings)
        self.thorough = dict(thorough)
        self.twin_timeout = twin_timeout
        self.note = note
        self.quick_omit_tags = tuple(quick_omit_tags)

    def for_tier(self, tier):
        """-> (params, timeout, split) effective in the tier"""
        params = dict(self.params)
        timeout = self.timeout
        split = list(self.split)
        if tier == 'thorough':
            t = self.thorough
            params.update(t.get('params', {}))
            timeout = t.get('timeout', timeout)
            split = t.get('split', split)
        return params, timeout, split

    def in_domain(self, tier, kwargs):
        """do these concrete keyword arguments lie inside the tier's declared symbolic domain?  (Extra `pre:`
        conditions cannot be evaluated here: obligations that declare any answer False.)"""
        if self.pre:
            return False
        params = self.for_tier(tier)[0]
        for name, p in params.items():
            if name not in kwargs or not p.contains(kwargs[name]):
                return False
        return all(k in params for k in kwargs)

    def tags_for(self, tier):
        if tier == 'quick':
            return {k: v for k, v in self.tags.items() if k not in self.quick_omit_tags}
        return dict(self.tags)

    def params_for(self, tier, label):
        if label == 'all':
            return self.for_tier(tier)[0]
        return dict(self.partitions(tier))[label]

    def partitions(self, tier):
        """list of (label, params-with-consts)"""
        params, timeout, split = self.for_tier(tier)
        if not split:
            return [('all', params)]
        # ('all' is also always available through unsplit())
        doms = []
        for s in split:
            d = params[s].domain()
            if d is None:
                raise ValueError('cannot split on %s' % s)
            doms.append(d)
        out = []
        for combo in itertools.product(*doms):
            p = dict(params)
            for s, v in zip(split, combo):
                p[s] = Const(v)
            out.append((','.join('%s=%r' % (s, v) for s, v in zip(split, combo)), p))
        return out


def obligation(params, tags, timeout=60, tiers=('quick', 'thorough'), split=(), pre=(), findings=None,
               thorough=None, twin_timeout=None, note='', quick_omit_tags=()):
    """Register the decorated function as an obligation of its module."""
    def deco(fn):
        ob = Obligation(fn, params, tags, timeout, tiers, split, pre, findings or {}, thorough or {},
                        twin_timeout, note, quick_omit_tags)
        import sys
        mod = sys.modules[fn.__module__]
        if not hasattr(mod, 'OBLIGATIONS'):
            mod.OBLIGATIONS = []
        mod.OBLIGATIONS.append(ob)
        fn.obligation = ob
        return fn
    return deco


def wrapper_source(modname, ob, params, post, verif_dir, fname='ob'):
    """Python source of a module holding the flat wrapper with the given postcondition."""
    flat = []
    pres = []
    allargs = ob.fn.__code__.co_varnames[:ob.fn.__code__.co_argcount]
    # parameters of the function that the obligation does not declare keep their Python defaults
    argnames = [a for a in allargs if a in params]
    for name in argnames:
        p = params[name]
        for fl, ann, pre in p.flat(name):
            flat.append((fl, ann))
            pres.extend(pre)
    pres.extend(ob.pre)
    call = ', '.join('%s=%s' % (a, params[a].build(a)) for a in argnames)
    sig = ', '.join('%s: %s' % (n, a) for n, a in flat)
    lines = []
    lines.append('import sys')
    lines.append('if %r not in sys.path: sys.path.insert(0, %r)' % (verif_dir, verif_dir))
    lines.append('from typing import Optional')
    lines.append('from symx.bstr import mk')
    lines.append('import %s as _H' % modname)
    lines.append('')
    lines.append('def %s(%s) -> int:' % (fname, sig))
    lines.append('    """')
    # group pres to keep docstring lines short but each on its own pre: line
    for pr in pres:
        lines.append('    pre: %s' % pr)
    if not pres:
        lines.append('    pre: True')
    lines.append('    post: %s' % post)
    lines.append('    """')
    lines.append('    return _H.%s(%s)' % (ob.name, call))
    lines.append('')
    return '\n'.join(lines), [n for n, _ in flat]
