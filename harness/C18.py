"""C18 ANSI emulator: total, shape-preserving, residue-free, independent of chunking.

P1  write_ch from any valid screen state: never raises, keeps the screen invariant SI.
P2  parser step: from each of the 13 FSM states, with numeric parameters already collected
    (unbounded symbolic integers), one input character of every class the transition table
    distinguishes: never raises, keeps SI, and whenever the parser is back in INIT the
    parameter stack holds nothing but the screen.  Every input is a sequence of such steps, so
    totality / shape / no-residue for inputs of any length follow by induction.
P3  chunking: write(a+b) == write(a); write(b) on a corpus of all sequences the emulator
    knows (plus truncated / unknown ones and multi-byte text), cut positions symbolic; text and
    bytes input.
SI: grid exactly rows x cols of 1-character strings, cursor on the screen, scroll region
    bounds inside 1..rows.
"""
import string

from symx.spec import obligation, Int, OptInt, Bool, SKIP
from harness.common import pick, patched
import pexpect.ANSI as A
import pexpect.screen as S
import pexpect.FSM as F

USES_BSTR = False
ENCODES = ['pexpect.ANSI.ANSI.write_ch', 'pexpect.ANSI.ANSI.write', 'pexpect.ANSI.ANSI.process',
           'pexpect.FSM.FSM.process', 'pexpect.FSM.FSM.get_transition', 'pexpect.ANSI.DoEmit', 'pexpect.ANSI.DoStartNumber',
           'pexpect.ANSI.DoBuildNumber', 'pexpect.ANSI.DoBack', 'pexpect.ANSI.DoDown', 'pexpect.ANSI.DoForward',
           'pexpect.ANSI.DoUp', 'pexpect.ANSI.DoHome', 'pexpect.ANSI.DoErase', 'pexpect.ANSI.DoEraseLine',
           'pexpect.ANSI.DoScrollRegion', 'pexpect.ANSI.DoMode', 'pexpect.ANSI.DoLog', 'pexpect.ANSI.DoUpReverse',
           'pexpect.ANSI.DoCursorSave', 'pexpect.ANSI.DoCursorRestore', 'pexpect.ANSI.DoEnableScroll',
           'pexpect.ANSI.ANSI.do_sgr', 'pexpect.ANSI.ANSI.do_decsca', 'pexpect.ANSI.ANSI.do_modecrap',
           'pexpect.screen.screen.scroll_screen_rows', 'pexpect.screen.screen.scroll_constrain',
           'pexpect.screen.screen._decode']
STUBS = ["ANSI.open (DoLog appends to a file called 'log' in the working directory): a null file",
         'NumStr: decimal text of a symbolic non-negative integer (int() and appending a digit are exact)',
         'terminal objects are constructed outside tracing so that they hold CPython\'s real incremental decoder']
ASSUMPTIONS = ['screen 3x4 (quick), also 1x1, 1x3, 2x1 and 4x5 (thorough); numeric parameters: unbounded non-negative integers given to the parser as their decimal text',
               'character dimension enumerated by class: the code only ever compares the character for equality with '
               'the characters named in the transition table and with CR/LF/BS',
               'DoLog writing to ./log succeeds (an unwritable working directory makes unknown sequences raise: '
               'environment-dependent, outside the claim)']
OUTSIDE = ['int() of a parameter with more than 4300 digits (Python limit)', 'screens larger than 4x5']

ROWS, COLS = 3, 4
CELLS = 'abcdefghijkl'
# quick: a 3x4 screen; the thorough tier repeats P1/P2 (and the corpus obligations) on degenerate and larger screens
SHAPES = [(3, 4), (1, 1), (1, 3), (2, 1), (4, 5)]


def _set_shape(k):
    """select the screen size for this run of an obligation (each analysis process works on one concrete shape)"""
    global ROWS, COLS, CELLS
    ROWS, COLS = SHAPES[k]
    CELLS = 'abcdefghijklmnopqrst'[:ROWS * COLS]


def _off_screen(cr, cc, rs, re, sr, sc):
    return cr > ROWS or rs > ROWS or re > ROWS or sr > ROWS or cc > COLS or sc > COLS
STATES = ['INIT', 'ESC', 'G0SCS', 'G1SCS', 'GRAPHICS_POUND', 'ELB', 'MODECRAP', 'NUMBER_1', 'MODECRAP_NUM',
          'SEMICOLON', 'NUMBER_2', 'SEMICOLON_X', 'NUMBER_X']
# how many numeric parameters the stack holds in each state
NPARAMS = {'INIT': 0, 'ESC': 0, 'G0SCS': 0, 'G1SCS': 0, 'GRAPHICS_POUND': 0, 'ELB': 0, 'MODECRAP': 0, 'NUMBER_1': 1,
           'MODECRAP_NUM': 1, 'SEMICOLON': 1, 'NUMBER_2': 2, 'SEMICOLON_X': 2, 'NUMBER_X': 3}


class _NullFile:
    def write(self, s):
        pass

    def close(self):
        pass


def _null_open(*a, **k):
    return _NullFile()


def _classes():
    """every character the transition table names, CR/LF/BS, and one representative of 'all others'"""
    t = A.ANSI(ROWS, COLS)
    named = sorted({sym for (sym, st) in t.state.state_transitions})
    return named + ['\r', '\n', '\x08', 'Z', '\xe9', ' ']


CLASSES = _classes()


def new_term(encoding=None):
    """build the terminal outside tracing: CrossHair substitutes its own model for codecs' incremental
    decoders (probed: that model disagrees with CPython on split multi-byte input); created here, the
    object holds CPython's real decoder, which traced code then calls natively."""
    from symx.bstr import tracing
    if tracing():
        from crosshair.tracers import NoTracing
        with NoTracing():
            return A.ANSI(ROWS, COLS, encoding=encoding) if encoding else A.ANSI(ROWS, COLS)
    return A.ANSI(ROWS, COLS, encoding=encoding) if encoding else A.ANSI(ROWS, COLS)


class NumStr:
    """the decimal text of a non-negative integer n (symbolic): exactly the two things the parser does with a
    collected parameter are modelled - int(text) and appending one more digit."""

    def __init__(self, n):
        self.n = n

    def __int__(self):
        return self.n

    def __symx_int__(self):
        return self.n

    def __add__(self, digit):
        if not (isinstance(digit, str) and len(digit) == 1 and digit in string.digits):
            raise TypeError('NumStr: only a digit can be appended')
        return NumStr(self.n * 10 + (ord(digit) - 48))

    def __eq__(self, o):
        return isinstance(o, NumStr) and self.n == o.n

    def __len__(self):
        # number of decimal digits of the canonical text (text is text: code may ask for its length)
        d, bound = 1, 10
        while d < 40:
            if self.n < bound:
                return d
            d += 1
            bound *= 10
        return 40                         # 10**39 and beyond: "at least 40 digits" is all the model says

    __hash__ = None


def mk_term(cr, cc, rs, re, sr, sc, encoding=None):
    t = new_term(encoding)
    for i in range(ROWS):
        for j in range(COLS):
            t.w[i][j] = CELLS[i * COLS + j]
    t.cur_r, t.cur_c = cr, cc
    t.scroll_row_start, t.scroll_row_end = rs, re
    t.cur_saved_r, t.cur_saved_c = sr, sc
    return t


def si_ok(t):
    if len(t.w) != ROWS:
        return False
    for i in range(ROWS):
        for j in range(i + 1, ROWS):
            if t.w[i] is t.w[j]:
                return False          # two rows are one list object: a later write would change both
    for row in t.w:
        if len(row) != COLS:
            return False
        for ch in row:
            if not isinstance(ch, str) or len(ch) != 1:
                return False
    if not (1 <= t.cur_r <= ROWS and 1 <= t.cur_c <= COLS):
        return False
    if not (1 <= t.scroll_row_start <= ROWS and 1 <= t.scroll_row_end <= ROWS):
        return False
    return True


_STATE = dict(cr=Int(1, ROWS), cc=Int(1, COLS), rs=Int(1, ROWS), re=Int(1, ROWS), sr=Int(1, ROWS), sc=Int(1, COLS))
_BIG = dict(shape=Int(0, 4), cr=Int(1, 4), cc=Int(1, 5), rs=Int(1, 4), re=Int(1, 4), sr=Int(1, 4), sc=Int(1, 5))


@obligation(params=dict(k=Int(0, 5), **_STATE),
            tags={2: 'CR', 3: 'LF', 4: 'BS', 5: 'printable', 6: 'printable at the last cell (wrap/scroll)'},
            timeout=300, thorough=dict(params=_BIG, split=('shape',), timeout=900),
            note='P1: write_ch from any valid screen state; k=4: the character given as a byte; k=5: a '
                              'three-byte character given to a utf-8 terminal one byte per call')
def P1_write_ch(k, cr, cc, rs, re, sr, sc, shape=0):
    _set_shape(pick(shape, 0, 4))
    if _off_screen(cr, cc, rs, re, sr, sc):
        return SKIP
    k = pick(k, 0, 5)
    X = 'X'
    if k == 5:
        X = '\u20ac'
        t = mk_term(cr, cc, rs, re, sr, sc, 'utf-8')
        t.write_ch(b'\xe2')
        t.write_ch(b'\x82')
        if (t.cur_r, t.cur_c) != (cr, cc) or t.w[cr - 1][cc - 1] != CELLS[(cr - 1) * COLS + cc - 1]:
            return 0                    # an incomplete character changed the screen
        t.write_ch(b'\xac')
        k = 3
    elif k == 4:
        t = mk_term(cr, cc, rs, re, sr, sc)
        t.write_ch(b'X')
        k = 3
    else:
        t = mk_term(cr, cc, rs, re, sr, sc)
        ch = ['\r', '\n', '\x08', 'X'][k]
        t.write_ch(ch)
    if not si_ok(t):
        return 0
    if k == 0:
        return 2 if (t.cur_r, t.cur_c) == (cr, 1) else 0
    if k == 1:
        if t.cur_c != 1 or t.cur_r != (cr + 1 if cr < ROWS else ROWS):
            return 0
        return 3
    if k == 2:
        return 4 if (t.cur_r, t.cur_c) == (cr, cc - 1 if cc > 1 else 1) else 0
    # printable: lands in the cursor cell unless that row was scrolled away afterwards
    if cc < COLS:
        if t.w[cr - 1][cc - 1] != X or (t.cur_r, t.cur_c) != (cr, cc + 1):
            return 0
        return 5
    if t.cur_c != 1:
        return 0
    if cr < ROWS:
        if t.w[cr - 1][cc - 1] != X or t.cur_r != cr + 1:
            return 0
    elif t.cur_r != ROWS:
        return 0
    return 6


@obligation(params=dict(st=Int(0, 12), cls=Int(0, len(CLASSES) - 1), n1=Int(0), n2=Int(0), n3=Int(0), **_STATE),
            tags={2: 'back in INIT, stack clean', 3: 'inside a sequence'}, timeout=900, split=('st',),
            thorough=dict(params=_BIG, split=('shape', 'st'), timeout=1800),
            note='P2: one parser step from every FSM state x character class, parameters unbounded integers')
def P2_parser_step(st, cls, n1, n2, n3, cr, cc, rs, re, sr, sc, shape=0):
    _set_shape(pick(shape, 0, 4))
    if _off_screen(cr, cc, rs, re, sr, sc):
        return SKIP
    st = pick(st, 0, 12)
    cls = pick(cls, 0, len(CLASSES) - 1)
    t = mk_term(cr, cc, rs, re, sr, sc)
    name = STATES[st]
    t.state.current_state = name
    t.state.memory = [t] + [NumStr(n) for n in (n1, n2, n3)[:NPARAMS[name]]]
    depth0 = len(t.state.memory)
    with patched(A, open=_null_open):
        t.process(CLASSES[cls])
    if not si_ok(t):
        return 0
    if t.state.current_state not in STATES:
        return 0
    mem = t.state.memory
    if not mem or mem[0] is not t:
        return 0
    if t.state.current_state == 'INIT':
        if len(mem) != 1:
            return 0                    # a completed (or abandoned) sequence left residue behind
        return 2
    if len(mem) != 1 + NPARAMS[t.state.current_state] and t.state.current_state not in ('SEMICOLON_X', 'NUMBER_X'):
        return 0
    if len(mem) > depth0 + 1:
        return 0
    return 3


def _corpus():
    E = '\x1b'
    seqs = ['hi', 'a\r\nb', 'x\x08y', 'abcdefghijklmnop', '\n\n\n\nz']
    for fin in 'HDBCAJKrm':
        seqs.append('q' + E + '[' + fin + 'w')
    for fin in 'DBCAJKlmq':
        for n in ('0', '1', '2', '9', '12'):
            seqs.append('q' + E + '[' + n + fin + 'w')
    for fin in 'Hfrmq':
        for a, b in (('1', '1'), ('2', '3'), ('0', '0'), ('9', '9'), ('3', '0'), ('0', '2')):
            seqs.append('q' + E + '[' + a + ';' + b + fin + 'w')
    seqs += ['q' + E + '[1;2;3mw', 'q' + E + '[1;2;3;4qw', 'q' + E + '[?47hw', 'q' + E + '[?1lw', 'q' + E + '7' + E + '[3;3Hz' + E + '8w',
             'q' + E + 'Mw', 'q' + E + '(Bw', 'q' + E + ')0w', 'q' + E + '#8w', 'q' + E + '=w', 'q' + E + '>w', 'q' + E + '<w',
             # truncated and unknown
             'q' + E, 'q' + E + '[', 'q' + E + '[1', 'q' + E + '[1;', 'q' + E + '[1;2', 'q' + E + '[?', 'q' + E + '[?4', 'q' + E + 'Zw',
             'q' + E + '[Zw', 'q' + E + '[1Zw', 'q' + E + '[1;Zw', 'q' + E + '[1;2Zw', 'q' + E + '[1;2;Zw', 'q' + E + '(Zw', 'q' + E + E + '[Hw',
             'r\xe9sum\xe9 € \U0001f600 z', E + '[2;2r' + '\n\n\n\n' + E + '[r' + 'k']
    return seqs


CORPUS = _corpus()


def _snapshot(t):
    return (t.dump(), t.cur_r, t.cur_c, t.cur_saved_r, t.cur_saved_c, t.scroll_row_start, t.scroll_row_end,
            t.state.current_state, [m for m in t.state.memory[1:]], len(t.state.memory))


@obligation(params=dict(k=Int(0, len(CORPUS) - 1), c1=Int(0, 24), c2=Int(0, 24), asbytes=Bool()),
            tags={2: 'cut inside an escape sequence', 3: 'cut elsewhere', 4: 'bytes input, cut inside a multi-byte character'},
            timeout=300, split=('asbytes', 'k'), thorough=dict(params=dict(shape=Int(0, 4)), split=('shape', 'asbytes', 'k'), timeout=600),
            note='P3: feeding the same input in up to three pieces (cuts at symbolic positions; bytes: positions in '
                 'the UTF-8 encoding) gives the same screen, cursor, region, FSM state and parameter stack; the '
                 'corpus index and the cut positions are enumerated through the solver (CrossHair realizes them at '
                 'the str/codec boundary)')
def P3_chunking(k, c1, c2, asbytes, shape=0):
    _set_shape(pick(shape, 0, 4))
    k = pick(k, 0, len(CORPUS) - 1)
    text = CORPUS[k]
    data = text.encode('utf-8') if asbytes else text
    n = len(data)
    if not (c1 <= c2 <= n):
        return SKIP
    c1 = pick(c1, 0, n)
    c2 = pick(c2, c1, n)
    with patched(A, open=_null_open):
        one = new_term('utf-8' if asbytes else None)
        one.write(data)
        many = new_term('utf-8' if asbytes else None)
        many.write(data[:c1])
        many.write(data[c1:c2])
        many.write(data[c2:])
    if not si_ok(one) or not si_ok(many):
        return 0
    if _snapshot(one) != _snapshot(many):
        return 0
    if asbytes:
        for c in (c1, c2):
            if 0 < c < n and (data[c] & 0xC0) == 0x80:
                return 4
    esc = text.find('\x1b')
    if not asbytes and esc >= 0 and (esc < c1 <= esc + 3 or esc < c2 <= esc + 3):
        return 2
    return 3


E_ = b'\x1b'
# byte input that is NOT well-formed UTF-8: truncated multi-byte prefixes followed by ASCII / an escape sequence /
# another character, stray continuation bytes, invalid bytes (the decoder's error policy is 'replace')
MALFORMED = [b'ab\xe2\x8cok', b'\xe2A\x8c\x9b', b'\xc3' + E_ + b'[1;2Hq\xa9', b'\xff\xfeab', b'a\x80b', b'\xf0\x9f\x98x' + E_ + b'[2Jz',
             b'\xe2\x82' + E_ + b'[1;1H\xac', b'q\xc3\xc3\xa9w', b'\xe2\x82', b'\xed\xa0\x80k']


@obligation(params=dict(k=Int(0, len(MALFORMED) - 1), c1=Int(0, 12), c2=Int(0, 12), unit=Bool()),
            tags={2: 'cut right after a truncated prefix', 3: 'cut elsewhere', 4: 'one byte per process() call'},
            timeout=300, split=('k',), thorough=dict(params=dict(shape=Int(0, 4)), split=('shape', 'k'), timeout=600),
            note='P3b: malformed byte input (truncated multi-byte prefixes followed by ASCII or an escape sequence, stray '
                 'continuation bytes, invalid bytes) fed to a utf-8 terminal in up to three pieces, or byte by byte '
                 'through process(): never raises, same screen / cursor / parser state / pending decoder bytes as one '
                 'write() (added after a seeded ASCII shortcut around the incremental decoder was missed: the corpus '
                 'had only well-formed text)')
def P3b_malformed_bytes(k, c1, c2, unit, shape=0):
    _set_shape(pick(shape, 0, 4))
    k = pick(k, 0, len(MALFORMED) - 1)
    data = MALFORMED[k]
    n = len(data)
    if not (c1 <= c2 <= n):
        return SKIP
    c1 = pick(c1, 0, n)
    c2 = pick(c2, c1, n)
    with patched(A, open=_null_open):
        one = new_term('utf-8')
        one.write(data)
        many = new_term('utf-8')
        if unit:
            if c1 or c2:
                return SKIP
            for i in range(n):
                many.process(data[i:i + 1])
        else:
            many.write(data[:c1])
            many.write(data[c1:c2])
            many.write(data[c2:])
    if not si_ok(one) or not si_ok(many):
        return 0
    if _snapshot(one) != _snapshot(many):
        return 0
    if one.decoder.getstate() != many.decoder.getstate():
        return 0                          # bytes still pending inside the decoder differ
    if unit:
        return 4
    for c in (c1, c2):
        if 0 < c < n and data[c - 1] >= 0xC0 and data[c] < 0x80:
            return 2
    return 3


@obligation(params=dict(k=Int(0, len(CORPUS) - 1), asbytes=Bool()),
            tags={2: 'text, one character per call', 3: 'bytes, one byte per call', 4: 'bytes with a multi-byte character'},
            timeout=300, split=('asbytes',), thorough=dict(params=dict(shape=Int(0, 4)), split=('shape', 'asbytes'), timeout=600),
            note='P4: feeding the input one unit at a time through process() (the documented single-character entry '
                 'point; for bytes input one byte per call, so every multi-byte character is cut at every position) '
                 'never raises and gives the same screen, cursor, region and parser state as one write()')
def P4_process_units(k, asbytes, shape=0):
    _set_shape(pick(shape, 0, 4))
    k = pick(k, 0, len(CORPUS) - 1)
    text = CORPUS[k]
    data = text.encode('utf-8') if asbytes else text
    with patched(A, open=_null_open):
        one = new_term('utf-8' if asbytes else None)
        one.write(data)
        many = new_term('utf-8' if asbytes else None)
        for i in range(len(data)):
            many.process(data[i:i + 1])
    if not si_ok(one) or not si_ok(many):
        return 0
    if _snapshot(one) != _snapshot(many):
        return 0
    if not asbytes:
        return 2
    return 4 if len(data) != len(text) else 3


def dry_runs():
    base = dict(cr=2, cc=2, rs=1, re=3, sr=1, sc=1)
    for st in range(len(STATES)):
        for cls in range(len(CLASSES)):
            yield 'P2_parser_step', dict(st=st, cls=cls, n1=2, n2=3, n3=4, **base)
    for k in range(len(CORPUS)):
        yield 'P3_chunking', dict(k=k, c1=2, c2=5 if len(CORPUS[k]) >= 5 else 2, asbytes=False)
        n = len(CORPUS[k].encode('utf-8'))
        yield 'P3_chunking', dict(k=k, c1=min(3, n), c2=min(7, n), asbytes=True)
    for k in (0, 5, len(CORPUS) - 3, len(CORPUS) - 2):
        yield 'P4_process_units', dict(k=k, asbytes=False)
        yield 'P4_process_units', dict(k=k, asbytes=True)
    for k in range(6):
        yield 'P1_write_ch', dict(k=k, **base)
    for k in range(len(MALFORMED)):
        yield 'P3b_malformed_bytes', dict(k=k, c1=1, c2=2, unit=False)
        yield 'P3b_malformed_bytes', dict(k=k, c1=0, c2=0, unit=True)


PROBES = ['screen']      # representation probes (harness/probes.py) this harness depends on


MANIFEST_ENTRY = {
    'level_text': 'Bounded symbolic verification of the real ANSI/FSM/screen code: (P1) write_ch and (P2) one parser '
                  'step from every FSM state x every character class of the transition table with unbounded symbolic '
                  'numeric parameters, from an arbitrary valid screen state - never raises, keeps the rows x cols grid, '
                  'cursor and scroll region valid, and leaves no parameter residue whenever the parser is back in '
                  'INIT; inputs of any length follow by induction over steps. (P3) chunking independence on a corpus '
                  'of every known / truncated / unknown sequence, multi-byte text and malformed byte input with symbolic cut positions.',
    'level_note': 'Character dimension enumerated by class (the code only tests equality with named characters); 3x4 '
                  'screen; P3 is an enumeration through the solver over a fixed corpus, weaker than P1/P2.',
}
