"""C08 send fidelity: the peer receives exactly what was sent, once, in order.

For every transport and every sequence of up to three send-family calls with symbolic payloads:
the texts handed to the object's encoder, concatenated, are exactly coerce(arg) (+ exactly one
line separator per sendline); every encoder output is written to the peer exactly once, in
order, and nothing else is written; send returns what the write reported.  Text given to a
bytes-mode object goes through UTF-8.  sendcontrol/sendeof/sendintr write exactly one byte.
"""
from symx.spec import obligation, Text, Bytes, Int, OptInt, Bool, SKIP
from symx.bstr import lit, tracing, _isb
from harness.common import Skip, patched, pick, Clock
from harness.io_stubs import FakeEncoder, EncTok, WriteEnd, RecFile, Events
import pexpect.pty_spawn as PS
import pexpect.spawnbase as SB
import pexpect.fdpexpect as FD
import pexpect.popen_spawn as PO
import pexpect.socket_pexpect as SK
import ptyprocess.ptyprocess as PP

PP._make_eof_intr()      # normally done by PtyProcess.__init__ (instances are built without forking here)

ENCODES = ['pexpect.pty_spawn.spawn.send', 'pexpect.pty_spawn.spawn.sendline', 'pexpect.pty_spawn.spawn.write',
           'pexpect.pty_spawn.spawn.writelines', 'pexpect.pty_spawn.spawn.sendcontrol', 'pexpect.pty_spawn.spawn.sendeof',
           'pexpect.pty_spawn.spawn.sendintr', 'pexpect.fdpexpect.fdspawn.send', 'pexpect.fdpexpect.fdspawn.sendline',
           'pexpect.fdpexpect.fdspawn.writelines', 'pexpect.popen_spawn.PopenSpawn.send',
           'pexpect.popen_spawn.PopenSpawn.sendline', 'pexpect.popen_spawn.PopenSpawn.writelines',
           'pexpect.socket_pexpect.SocketSpawn.send', 'pexpect.socket_pexpect.SocketSpawn.sendline',
           'pexpect.spawnbase.SpawnBase._coerce_send_string', 'ptyprocess.ptyprocess.PtyProcess.sendcontrol']
STUBS = ['FakeEncoder (unicode mode): records every text, returns an opaque token of len(text) + pad bytes (pad '
         'symbolic: bytes != characters); the write end records tokens',
         'os.write / socket.sendall / Popen.stdin.write: recorders; A3: a blocking write transfers everything and '
         'reports the number of bytes it was given', 'time.sleep (delaybeforesend): virtual clock']
ASSUMPTIONS = ['A3 blocking writes are complete', 'payloads <= 3 characters each, <= 3 calls per history',
               'bytes mode + text argument: ASCII in the symbolic obligations (non-ASCII UTF-8 in the concrete dry runs)']

LINESEP = '\n'


class _Sock:
    def __init__(self, we):
        self.we = we

    def fileno(self):
        return 7

    def sendall(self, b):
        self.we.writes.append(('sock', b))

    def send(self, b):
        # a single send() may take only part of the data (here: one element)
        self.we.writes.append(('sock', b[:1]))
        return 1 if len(b) else 0


class _Stdin:
    def __init__(self, we):
        self.we = we

    def write(self, b):
        return self.we.fwrite(b)


def _mk(tr, uni, we, pad=0):
    """transport object of kind tr (0 pty, 1 fd, 2 popen, 3 socket)"""
    enc = 'utf-8' if uni else None
    if tr == 0:
        sp = PS.spawn(None, encoding=enc)
        sp.child_fd, sp.closed = 7, False
        sp.delaybeforesend = 0
    elif tr == 1:
        sp = FD.fdspawn.__new__(FD.fdspawn)
        SB.SpawnBase.__init__(sp, encoding=enc)
        sp.child_fd, sp.closed = 7, False
    elif tr == 2:
        sp = PO.PopenSpawn.__new__(PO.PopenSpawn)
        SB.SpawnBase.__init__(sp, encoding=enc)
        sp.closed = False

        class _Proc:
            stdin = _Stdin(we)
        sp.proc = _Proc()
    else:
        sp = SK.SocketSpawn(_Sock(we), encoding=enc)
    if uni:
        sp._encoder = FakeEncoder(pad)
    return sp


def _cat(parts, empty):
    out = empty
    for p in parts:
        out = out + p
    return out


def _run(tr, uni, astext, a, b, op0, op1, ret, op2=None):
    tr = pick(tr, 0, 3)
    pad = 0 if ret is None else ret        # unicode mode: every non-empty text encodes to len(text) + pad bytes
    we = WriteEnd()
    sp = _mk(tr, uni, we, pad)
    clk = Clock(0)

    class _OS:
        linesep = LINESEP

        @staticmethod
        def write(fd, data):
            return we.write(fd, data)
    expected = []          # texts the peer must receive, in order (native string type)
    rets = []
    linesep = sp.linesep
    with patched(PS, os=_OS, time=clk), patched(FD, os=_OS):
        calls = [(pick(op0, 0, 3), a), (pick(op1, 0, 3), b)]
        if op2 is not None:
            calls.append((pick(op2, 0, 3), a))
        for op, payload in calls:
            nw = len(we.writes)
            if op == 0:
                r = sp.send(payload)
                rets.append((r, nw, len(we.writes)))
                expected.append(payload)
            elif op == 1:
                r = sp.sendline(payload)
                rets.append((r, nw, len(we.writes)))
                expected.append(payload)
                expected.append(linesep)
            elif op == 2:
                if sp.write(payload) is not None:
                    return 0
                expected.append(payload)
            else:
                sp.writelines([payload, payload])
                expected.append(payload)
                expected.append(payload)
    # what reached the write end
    if uni:
        enc = sp._encoder
        texts = [s for s, final in enc.calls]
        for s, final in enc.calls:
            if final is not False:
                return 0
        # every encoder output written exactly once, in order, nothing else
        toks = [d for fd, d in we.writes]
        if len(toks) != len(enc.calls):
            return 0
        for k, t in enumerate(toks):
            if not isinstance(t, EncTok) or t.part or t.s is not enc.calls[k][0]:
                return 0
        got = _cat(texts, lit(''))
        want = _cat(expected, lit(''))
    else:
        got = _cat([d for fd, d in we.writes], lit(b''))
        want = lit(b'')
        for p in expected:
            want = want + (p.encode('utf-8') if astext and not (isinstance(p, bytes)) and not _is_bytes(p) else p)
    if not (got == want):
        return 0
    for fd, d in we.writes:
        if fd not in (7, 'stdin', 'sock'):
            return 0
    # send/sendline return the number of bytes written by that call (A3: the write takes everything; in unicode
    # mode the number of bytes is the encoder's, not the number of characters)
    for r, nw, end in rets:
        total = 0
        for fd, d in we.writes[nw:end]:
            total = total + len(d)
        if r != total:
            return 0
    return 2 + tr


def _is_bytes(p):
    if _isb(p):
        return p.kind == 'b'
    return isinstance(p, bytes)


@obligation(params=dict(tr=Int(0, 3), a=Text(3), b=Text(3), op0=Int(0, 3), op1=Int(0, 3), ret=OptInt(0, 9)),
            tags={2: 'pty', 3: 'fd', 4: 'piped subprocess', 5: 'socket'}, timeout=600, split=('tr',),
            thorough=dict(params=dict(op2=Int(0, 3), a=Text(4), b=Text(4)), timeout=1800, split=('tr', 'op0')),
            note='(ret: extra bytes per encoded text) unicode mode: two calls (thorough: three) out of send/sendline/write/writelines with symbolic text (any code points)')
def S1_unicode(tr, a, b, op0, op1, ret, op2=None):
    return _run(tr, True, True, a, b, op0, op1, ret, op2)


@obligation(params=dict(tr=Int(0, 3), a=Bytes(3), b=Bytes(3), op0=Int(0, 3), op1=Int(0, 3), ret=OptInt(0, 9)),
            tags={2: 'pty', 3: 'fd', 4: 'piped subprocess', 5: 'socket'}, timeout=600, split=('tr',),
            thorough=dict(params=dict(op2=Int(0, 3), a=Bytes(4), b=Bytes(4)), timeout=1800, split=('tr', 'op0')),
            note='bytes mode, bytes arguments (all byte values): written unchanged')
def S2_bytes(tr, a, b, op0, op1, ret, op2=None):
    return _run(tr, False, False, a, b, op0, op1, ret, op2)


@obligation(params=dict(tr=Int(0, 3), a=Text(3, maxch=128), b=Text(3, maxch=128), op0=Int(0, 3), op1=Int(0, 3)),
            tags={2: 'pty', 3: 'fd', 4: 'piped subprocess', 5: 'socket'}, timeout=600, split=('tr',),
            note='bytes mode, text arguments (ASCII): UTF-8 encoded')
def S3_text_in_bytes_mode(tr, a, b, op0, op1):
    if pick(tr, 0, 3) == 2 and (pick(op0, 0, 3) == 1 or pick(op1, 0, 3) == 1):
        pass
    return _run(tr, False, True, a, b, op0, op1, None)


class _FO:
    def __init__(self):
        self.w = []

    def write(self, b):
        self.w.append(b)
        return len(b)

    def flush(self):
        pass


CTRL_NAMES = list('abcdefghijklmnopqrstuvwxyz') + list('ABCZ') + ['@', '`', '[', '{', '\\', '|', ']', '}', '^', '~', '_', '?']


@obligation(params=dict(k=Int(0, len(CTRL_NAMES) + 2), uni=Bool()),
            tags={2: 'sendcontrol', 3: 'sendeof', 4: 'sendintr', 5: 'unknown control name: nothing written'}, timeout=300,
            note='control characters: exactly one byte is written per valid sendcontrol/sendeof/sendintr (the finite '
                 'table of names enumerated; ptyprocess.sendcontrol executed), logged to the send log')
def S4_control(k, uni):
    k = pick(k, 0, len(CTRL_NAMES) + 2)
    sp = PS.spawn(None, encoding='utf-8' if uni else None)
    pt = PP.PtyProcess.__new__(PP.PtyProcess)
    pt.fileobj = _FO()
    pt.closed = True           # never let __del__ act
    sp.ptyproc = pt
    ev = Events()
    sp.logfile_send = RecFile('s', ev)
    if k < len(CTRL_NAMES):
        name = CTRL_NAMES[k]
        n = sp.sendcontrol(name)
        c = name.lower()
        want = ord(c) - 96 if 'a' <= c <= 'z' else {'@': 0, '`': 0, '[': 27, '{': 27, '\\': 28, '|': 28, ']': 29,
                                                     '}': 29, '^': 30, '~': 30, '_': 31, '?': 127}[c]
        if pt.fileobj.w != [bytes([want])] or n != 1:
            return 0
        tag = 2
    elif k == len(CTRL_NAMES):
        sp.sendeof()
        if pt.fileobj.w != [PP._EOF]:
            return 0
        tag = 3
    elif k == len(CTRL_NAMES) + 1:
        sp.sendintr()
        if pt.fileobj.w != [PP._INTR]:
            return 0
        tag = 4
    else:
        n = sp.sendcontrol('1')
        if pt.fileobj.w or n != 0:
            return 0
        tag = 5
    if len(pt.fileobj.w) > 1 or (pt.fileobj.w and len(pt.fileobj.w[0]) != 1):
        return 0
    logged = [v for nm, op, v in ev.ev if op == 'write']
    if tag != 5:
        b = pt.fileobj.w[0]
        if logged != [b.decode('utf-8', 'replace') if uni else b]:
            return 0
    return tag


def dry_runs():
    for tr in range(4):
        yield 'S1_unicode', dict(tr=tr, a='é€', b='\U0001f600x', op0=1, op1=3, ret=None)
        yield 'S2_bytes', dict(tr=tr, a=b'\x00\xff', b=b'ab', op0=0, op1=1, ret=None)
        yield 'S3_text_in_bytes_mode', dict(tr=tr, a='é€', b='z', op0=1, op1=2)
    for k in range(len(CTRL_NAMES) + 3):
        yield 'S4_control', dict(k=k, uni=bool(k % 2))


PROBES = ['transports']      # representation probes (harness/probes.py) this harness depends on


MANIFEST_ENTRY = {
    'level_text': 'Bounded symbolic verification of the real send/sendline/write/writelines of all four transports with '
                  'symbolic payloads (text: any code points; bytes: all byte values; <=3 characters, two calls): texts '
                  'reach the object\'s encoder exactly once in order (+ one line separator per sendline), every encoder '
                  'output is written once in order, nothing else is written, return values; control-character table.',
    'level_note': 'Encoders are uninterpreted recorders; blocking writes are complete (A3); what a real peer receives '
                  'through a tty is outside the claim.',
}
