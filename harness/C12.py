"""C12 run(): complete output, each event answered once, true exit status.

run() drives a scripted child (the real expect machinery over a scripted transport).  The
child's dialogue text is concrete; the STRUCTURE is symbolic: where the stream is cut into
reads, whether and where the transport reports TIMEOUT in between, how the dialogue ends (EOF /
TIMEOUT), the shape of the event table (dict / list / none, order of the entries, TIMEOUT or
EOF as event keys), the kind of each response (string, function, method) and what a callback
returns (None, a string to send, True to stop).
Checked: the return value is exactly the output consumed up to the stop - each piece once;
responses are sent once per occurrence in stream order; with withexitstatus the exit status
recorded by close().
"""
import io
import sys as _sys
import types

from symx.spec import obligation, Int, OptInt, Bool, SKIP
from symx.bstr import tracing
from harness.common import Skip, patched, pick, Clock, untraced_re
from pexpect.exceptions import EOF, TIMEOUT
from pexpect.spawnbase import SpawnBase
import pexpect.expect as E
import pexpect.pty_spawn  # noqa
RUN = _sys.modules['pexpect.run']

USES_BSTR = False
ENCODES = ['pexpect.run.run', 'pexpect.spawnbase.SpawnBase.expect',
           'pexpect.spawnbase.SpawnBase.compile_pattern_list', 'pexpect.expect.Expecter.expect_loop']
STUBS = ['pexpect.spawnbase.re: the real module, compile() executed outside tracing',
         'pexpect.run.spawn: a SpawnBase subclass with a scripted read_nonblocking, recording send(), close() setting '
         'exitstatus', 'buffers: real io objects created outside tracing', 'pexpect.expect.time frozen']
ASSUMPTIONS = ['dialogue text concrete (two prompts), structure symbolic; <= 3 reads + <= 1 transport TIMEOUT in between']

STREAM = 'aPAbPBc\n'


def _real_buffer(kind):
    def make():
        if tracing():
            from crosshair.tracers import NoTracing
            with NoTracing():
                return io.StringIO() if kind == 't' else io.BytesIO()
        return io.StringIO() if kind == 't' else io.BytesIO()
    return make


class Child(SpawnBase):
    made = None

    def __init__(self, script, uni, status):
        SpawnBase.__init__(self, encoding='utf-8' if uni else None, timeout=5)
        self.buffer_type = _real_buffer('t' if uni else 'b')
        self._before, self._buffer = self.buffer_type(), self.buffer_type()
        self.script, self.sent, self.status_on_close = list(script), [], status
        self.delayafterread = None
        self.closed_n = 0
        self.consumed = []

    def read_nonblocking(self, size=1, timeout=None):
        if not self.script:
            raise EOF('end') if self.flag_eof else TIMEOUT('script exhausted')
        ev = self.script.pop(0)
        if ev[0] == 'data':
            self.consumed.append(ev[1])
            return ev[1]
        if ev[0] == 'eof':
            self.flag_eof = True
            raise EOF('end')
        raise TIMEOUT('quiet')

    def send(self, s):
        self.sent.append((s, len(self.consumed)))
        return len(s)

    def close(self, force=True):
        self.closed_n += 1
        self.exitstatus = self.status_on_close


class Handler:
    def __init__(self, log, result):
        self.log, self.result = log, result

    def method(self, d):
        self.log.append(('method', d['event_count'], d['child'].after, sorted(d.keys())))
        return self.result


def _conv(x, uni):
    return x if uni else x.encode('ascii')


@obligation(params=dict(c1=Int(0, 8), c2=Int(8, 8), quiet_at=Int(0, 3), end=Int(0, 1), shape=Int(0, 4), kindA=Int(0, 2),
                        cbres=Int(0, 3), uni=Bool(), withexit=Bool(), status=Int(0, 255)),
            tags={2: 'ran to EOF', 3: 'ran into the timeout', 4: 'stopped by a callback', 5: 'TIMEOUT event fired and the run went on'},
            timeout=900, split=('shape', 'end', 'kindA'),
            thorough=dict(params=dict(c2=Int(0, 8)), timeout=3000, split=('shape', 'end', 'kindA', 'uni')),
            note='shape: 0 dict {PA,PB}, 1 list [(PB..),(PA..)], 2 list with TIMEOUT event, 3 list with EOF event, '
                 '4 no events; kindA: response to PA is a string / function / method; cbres: what a callback returns (None / a string to send / True to stop / 0)')
def R1_run(c1, c2, quiet_at, end, shape, kindA, cbres, uni, withexit, status):
    n = len(STREAM)
    if not (c1 <= c2 <= n):
        return SKIP
    c1 = pick(c1, 0, n)
    c2 = pick(c2, c1, n)
    shape, kindA, cbres, quiet_at = pick(shape, 0, 4), pick(kindA, 0, 2), pick(cbres, 0, 3), pick(quiet_at, 0, 3)
    S = _conv(STREAM, uni)
    pieces = [S[:c1], S[c1:c2], S[c2:]]
    script = [('data', p) for p in pieces]
    if quiet_at < 3:
        script.insert(quiet_at + 1, ('timeout',))
    script.append(('eof',) if end == 0 else ('timeout',))
    log = []
    cb_value = [None, _conv('cb!', uni), True, 0][cbres]      # 0: falsy but not None - the run goes on

    def func(d):
        log.append(('func', d['event_count'], d['child'].after, sorted(d.keys())))
        return cb_value
    h = Handler(log, cb_value)
    respA = [_conv('ra\n', uni), func, h.method][kindA]
    respB = _conv('rb\n', uni)
    ticks = []

    def on_timeout(d):
        ticks.append(d['event_count'])
        return True if len(ticks) >= 2 else None      # a TIMEOUT event never ends by itself: stop at the second one

    def on_eof(d):
        ticks.append('eof')
        return True                            # an EOF event has to stop the run itself
    PA, PB = _conv('PA', uni), _conv('PB', uni)
    events = [{PA: respA, PB: respB}, [(PB, respB), (PA, respA)], [(PA, respA), (TIMEOUT, on_timeout), (PB, respB)],
              [(EOF, on_eof), (PA, respA), (PB, respB)], None][shape]
    holder = {}

    def factory(command, **kw):
        ch = Child(script, uni, status)
        holder['c'] = ch
        holder['kw'] = (command, kw)
        return ch
    # the caller's timeout convention varies with the first cut: -1 = the spawn class's default, a number, None = never
    tmo = [-1, 7, None][c1 % 3]
    with patched(RUN, spawn=factory), patched(E, time=Clock(0)), untraced_re():
        r = RUN.run('prog', withexitstatus=withexit, events=events, encoding='utf-8' if uni else None, timeout=tmo,
                    cwd='/w', env={'K': 'v'})
    ch = holder['c']
    command, kw = holder['kw']
    if command != 'prog' or kw.get('cwd') != '/w' or kw.get('env') != {'K': 'v'} or kw.get('encoding') != ('utf-8' if uni else None):
        return 0                        # the child is not created as asked
    if tmo == -1:
        if 'timeout' in kw and kw['timeout'] != 30:
            return 0
    elif 'timeout' not in kw or kw['timeout'] != tmo:
        return 0                        # None means "never time out", not "use the default"
    out, st = (r if withexit else (r, None))
    if withexit:
        if not isinstance(r, tuple) or st != status or ch.closed_n != 1:
            return 0
    # ---- reference
    empty = _conv('', uni)
    consumed_all = empty.join(ch.consumed)
    want_sent = []
    stopped = None
    if shape != 4:
        for tok, resp in ((PA, respA), (PB, respB)):
            if consumed_all.find(tok) < 0:
                break                          # this occurrence never arrived before the run ended
            if isinstance(resp, (str, bytes)):
                want_sent.append(resp)
            elif cbres == 1:
                want_sent.append(cb_value)
            elif cbres == 2:
                stopped = tok
                break
    sent = [s for s, k in ch.sent]
    if sent != want_sent:
        return 0                               # an occurrence answered twice, not at all, or out of order
    if kindA and log:
        kind, cnt, after, keys = log[0]
        if after != PA or 'child' not in keys or 'event_count' not in keys or 'extra_args' not in keys:
            return 0
        if len(log) != 1:
            return 0
    if stopped is not None:
        if out != S[:S.find(stopped) + len(stopped)]:
            return 0
        return 4
    if out != consumed_all:
        return 0                               # something lost or returned twice
    if shape == 2 and ticks:
        return 5
    return 2 if ch.flag_eof else 3


def dry_runs():
    for shape in range(5):
        for end in range(2):
            yield 'R1_run', dict(c1=2, c2=5, quiet_at=3, end=end, shape=shape, kindA=1, cbres=1, uni=bool(shape % 2),
                                 withexit=True, status=7)
    yield 'R1_run', dict(c1=2, c2=5, quiet_at=1, end=0, shape=2, kindA=0, cbres=0, uni=False, withexit=False, status=0)


PROBES = ['expect_core']      # representation probes (harness/probes.py) this harness depends on


MANIFEST_ENTRY = {
    'level_text': 'Bounded symbolic verification of the real run() loop over a scripted child with the real expect '
                  'machinery underneath: read boundaries (two symbolic cuts), transport TIMEOUTs in between, end event, '
                  'event-table shape (dict/list/TIMEOUT or EOF as keys/none), response kinds and callback results, mode and '
                  'exit status are symbolic; return value == output consumed once, responses once per occurrence in '
                  'stream order, callback protocol, exit status passthrough.',
    'level_note': 'Dialogue text is concrete (structure symbolic: the cut positions are enumerated through the solver).',
}
