"""C19 screen operations do what their documentation says and nothing else.

A 3x4 screen holding 12 distinct characters; every documented operation is run from an
ARBITRARY valid state (any cursor on the screen, any scroll region a caller can have set,
any saved cursor) with UNBOUNDED symbolic integer arguments and compared, cell by cell and
field by field, with a reference grid written from the docstrings.  Because every operation
starts from an arbitrary state and never inspects cell contents, sequences of any length
follow by induction.  Where the documentation is silent (what fills the row vacated by a
scroll, which way Reverse Index scrolls) the reference asserts nothing.
"""
from symx.spec import obligation, Int, OptInt, Bool, SKIP
from harness.common import pick
import pexpect.screen as S

USES_BSTR = False
ENCODES = ['pexpect.screen.screen.put_abs', 'pexpect.screen.screen.put', 'pexpect.screen.screen.insert_abs',
           'pexpect.screen.screen.insert', 'pexpect.screen.screen.fill_region', 'pexpect.screen.screen.fill',
           'pexpect.screen.screen.erase_end_of_line', 'pexpect.screen.screen.erase_start_of_line',
           'pexpect.screen.screen.erase_line', 'pexpect.screen.screen.erase_down', 'pexpect.screen.screen.erase_up',
           'pexpect.screen.screen.erase_screen', 'pexpect.screen.screen.cursor_home', 'pexpect.screen.screen.cursor_back',
           'pexpect.screen.screen.cursor_down', 'pexpect.screen.screen.cursor_forward', 'pexpect.screen.screen.cursor_up',
           'pexpect.screen.screen.cursor_up_reverse', 'pexpect.screen.screen.cursor_force_position',
           'pexpect.screen.screen.cursor_save', 'pexpect.screen.screen.cursor_unsave',
           'pexpect.screen.screen.cursor_save_attrs', 'pexpect.screen.screen.cursor_restore_attrs',
           'pexpect.screen.screen.scroll_constrain', 'pexpect.screen.screen.scroll_screen',
           'pexpect.screen.screen.scroll_screen_rows', 'pexpect.screen.screen.scroll_down',
           'pexpect.screen.screen.scroll_up', 'pexpect.screen.screen.lf', 'pexpect.screen.screen.cr',
           'pexpect.screen.screen.crlf', 'pexpect.screen.screen.newline', 'pexpect.screen.screen.get_abs',
           'pexpect.screen.screen.get', 'pexpect.screen.screen.get_region', 'pexpect.screen.screen.dump',
           'pexpect.screen.screen.pretty', 'pexpect.screen.screen._unicode', 'pexpect.screen.constrain']
STUBS = []
ASSUMPTIONS = ['screen 3x4 (rows x cols) in the quick tier, also 1x1, 1x3, 2x1 and 4x5 in the thorough tier, with distinct cell contents; cursor and scroll region: every valid state',
               'operation arguments: unbounded mathematical integers',
               'documentation silent => nothing asserted: content of the row vacated by scroll_up/scroll_down, '
               'direction of the scroll in cursor_up_reverse at the top row']
ROWS, COLS = 3, 4
CELLS = 'abcdefghijkl'
# quick: 3x4; the thorough tier repeats every obligation on degenerate and larger screens
SHAPES = [(3, 4), (1, 1), (1, 3), (2, 1), (4, 5)]


def _set_shape(k):
    """select the screen size for this run of an obligation (each analysis process works on one concrete shape)"""
    global ROWS, COLS, CELLS
    ROWS, COLS = SHAPES[k]
    CELLS = 'abcdefghijklmnopqrst'[:ROWS * COLS]


def _off_screen(cr, cc, rs, re, sr, sc):
    return cr > ROWS or rs > ROWS or re > ROWS or sr > ROWS or cc > COLS or sc > COLS


def mk_screen(cr, cc, rs, re, sr, sc):
    s = S.screen(ROWS, COLS)
    for i in range(ROWS):
        for j in range(COLS):
            s.w[i][j] = CELLS[i * COLS + j]
    s.cur_r, s.cur_c = cr, cc
    s.scroll_row_start, s.scroll_row_end = rs, re
    s.cur_saved_r, s.cur_saved_c = sr, sc
    return s


def ref_grid():
    return [[CELLS[i * COLS + j] for j in range(COLS)] for i in range(ROWS)]


def clamp(n, lo, hi):
    if n < lo:
        return lo
    if n > hi:
        return hi
    return n


def shape_ok(s):
    if len(s.w) != ROWS:
        return False
    for i in range(ROWS):
        for j in range(i + 1, ROWS):
            if s.w[i] is s.w[j]:
                return False          # two rows are one list object: a later write would change both
    for row in s.w:
        if len(row) != COLS:
            return False
        for ch in row:
            if not isinstance(ch, str) or len(ch) != 1:
                return False
    return 1 <= s.cur_r <= ROWS and 1 <= s.cur_c <= COLS


def same(s, g):
    for i in range(ROWS):
        for j in range(COLS):
            if s.w[i][j] != g[i][j]:
                return False
    return True


def fill_ref(g, rs, cs, re, ce, ch):
    rs, re = clamp(rs, 1, ROWS), clamp(re, 1, ROWS)
    cs, ce = clamp(cs, 1, COLS), clamp(ce, 1, COLS)
    if rs > re:
        rs, re = re, rs
    if cs > ce:
        cs, ce = ce, cs
    for i in range(ROWS):
        for j in range(COLS):
            if rs <= i + 1 <= re and cs <= j + 1 <= ce:
                g[i][j] = ch


_STATE = dict(cr=Int(1, ROWS), cc=Int(1, COLS), rs=Int(1, ROWS), re=Int(1, ROWS), sr=Int(1, ROWS), sc=Int(1, COLS))

_THOROUGH = dict(params=dict(shape=Int(0, 4), cr=Int(1, 4), cc=Int(1, 5), rs=Int(1, 4), re=Int(1, 4), sr=Int(1, 4),
                             sc=Int(1, 5)), split=('shape', 'op'), timeout=1800)

CURSOR_OPS = ['cursor_home', 'cursor_force_position', 'cursor_back', 'cursor_forward', 'cursor_up', 'cursor_down',
              'cursor_save', 'cursor_save_attrs', 'cursor_unsave', 'cursor_restore_attrs', 'cr', 'cursor_up_reverse',
              'cursor_home()']
SCROLL_OPS = ['scroll_up', 'scroll_down', 'scroll_screen_rows', 'scroll_screen', 'lf', 'crlf', 'newline']
ACC_OPS = ['get_abs', 'get', 'get_region', 'dump', 'str', 'pretty']
WRITE_OPS = ['put_abs', 'put', 'insert_abs', 'insert', 'fill_region', 'fill', 'erase_end_of_line',
             'erase_start_of_line', 'erase_line', 'erase_down', 'erase_up', 'erase_screen']


@obligation(params=dict(op=Int(0, 11), a=Int(), b=Int(), c=Int(), d=Int(), multi=Bool(), **_STATE),
            tags={2 + k: n for k, n in enumerate(WRITE_OPS)}, timeout=900, split=('op', 'multi'), thorough=dict(_THOROUGH, params=dict(_THOROUGH['params'], asb=Bool()), split=('shape', 'op', 'multi')),
            note='(multi: the character argument is a two-character string - only its first character is written, as put_abs documents by use; thorough: also given as bytes) cell-writing operations: exactly the documented cells change, the cursor, saved cursor and scroll '
                 'region do not')
def W1_writes(op, a, b, c, d, cr, cc, rs, re, sr, sc, shape=0, asb=False, multi=False):
    _set_shape(pick(shape, 0, 4))
    if _off_screen(cr, cc, rs, re, sr, sc):
        return SKIP
    op = pick(op, 0, 11)
    s = mk_screen(cr, cc, rs, re, sr, sc)
    g = ref_grid()
    X = 'X'
    if asb:
        # the same operations with the character given as a byte: it lands in the grid as the text character
        real = s

        class _B:
            def __getattr__(self, name):
                f = getattr(real, name)
                return lambda *args: f(*[((b'XY' if multi else b'X') if (type(v) is str and v == 'X') else v) for v in args])
        s = _B()
    elif multi:
        real = s

        class _M:
            def __getattr__(self, name):
                f = getattr(real, name)
                return lambda *args: f(*[('XY' if (type(v) is str and v == 'X') else v) for v in args])
        s = _M()
    if op == 0:
        s.put_abs(a, b, X)
        g[clamp(a, 1, ROWS) - 1][clamp(b, 1, COLS) - 1] = X
    elif op == 1:
        s.put(X)
        g[cr - 1][cc - 1] = X
    elif op == 2 or op == 3:
        if op == 2:
            s.insert_abs(a, b, X)
            r, col = clamp(a, 1, ROWS), clamp(b, 1, COLS)
        else:
            s.insert(X)
            r, col = cr, cc
        old = list(g[r - 1])
        for j in range(COLS):
            if j + 1 > col:
                g[r - 1][j] = old[j - 1]
        g[r - 1][col - 1] = X
    elif op == 4:
        s.fill_region(a, b, c, d, X)
        fill_ref(g, a, b, c, d, X)
    elif op == 5:
        s.fill(X)
        fill_ref(g, 1, 1, ROWS, COLS, X)
    elif op == 6:
        s.erase_end_of_line()
        fill_ref(g, cr, cc, cr, COLS, ' ')
    elif op == 7:
        s.erase_start_of_line()
        fill_ref(g, cr, 1, cr, cc, ' ')
    elif op == 8:
        s.erase_line()
        fill_ref(g, cr, 1, cr, COLS, ' ')
    elif op == 9:
        s.erase_down()
        fill_ref(g, cr, cc, cr, COLS, ' ')
        if cr < ROWS:
            fill_ref(g, cr + 1, 1, ROWS, COLS, ' ')
    elif op == 10:
        s.erase_up()
        fill_ref(g, cr, 1, cr, cc, ' ')
        if cr > 1:
            fill_ref(g, 1, 1, cr - 1, COLS, ' ')
    else:
        s.erase_screen()
        fill_ref(g, 1, 1, ROWS, COLS, ' ')
    if asb or multi:
        s = real
    if not shape_ok(s) or not same(s, g):
        return 0
    if (s.cur_r, s.cur_c, s.cur_saved_r, s.cur_saved_c, s.scroll_row_start, s.scroll_row_end) != (cr, cc, sr, sc, rs, re):
        return 0
    return 2 + op


@obligation(params=dict(op=Int(0, 12), a=Int(), b=Int(), **_STATE),
            tags={2 + k: n for k, n in enumerate(CURSOR_OPS)}, timeout=600, split=('op',), thorough=_THOROUGH,
            note='cursor operations: only the documented cursor fields change, coordinates outside the screen are the '
                 'nearest edge, no cell changes (Reverse Index at the top row may scroll: only the frame is asserted)')
def W2_cursor(op, a, b, cr, cc, rs, re, sr, sc, shape=0):
    _set_shape(pick(shape, 0, 4))
    if _off_screen(cr, cc, rs, re, sr, sc):
        return SKIP
    op = pick(op, 0, 12)
    s = mk_screen(cr, cc, rs, re, sr, sc)
    er, ec, esr, esc = cr, cc, sr, sc
    cells_may_change = False
    if op == 0:
        s.cursor_home(a, b)
        er, ec = clamp(a, 1, ROWS), clamp(b, 1, COLS)
    elif op == 1:
        s.cursor_force_position(a, b)
        er, ec = clamp(a, 1, ROWS), clamp(b, 1, COLS)
    elif op == 2:
        s.cursor_back(a)
        ec = clamp(cc - a, 1, COLS)
    elif op == 3:
        s.cursor_forward(a)
        ec = clamp(cc + a, 1, COLS)
    elif op == 4:
        s.cursor_up(a)
        er = clamp(cr - a, 1, ROWS)
    elif op == 5:
        s.cursor_down(a)
        er = clamp(cr + a, 1, ROWS)
    elif op == 6:
        s.cursor_save()
        esr, esc = cr, cc
    elif op == 7:
        s.cursor_save_attrs()
        esr, esc = cr, cc
    elif op == 8:
        s.cursor_unsave()
        er, ec = sr, sc
    elif op == 9:
        s.cursor_restore_attrs()
        er, ec = sr, sc
    elif op == 10:
        s.cr()
        ec = 1
    elif op == 11:
        s.cursor_up_reverse()
        er = clamp(cr - 1, 1, ROWS)
        cells_may_change = (cr == 1)
    else:
        s.cursor_home()
        er, ec = 1, 1
    if not shape_ok(s):
        return 0
    if (s.cur_r, s.cur_c, s.cur_saved_r, s.cur_saved_c) != (er, ec, esr, esc):
        return 0
    if (s.scroll_row_start, s.scroll_row_end) != (rs, re):
        return 0
    if not cells_may_change and not same(s, ref_grid()):
        return 0
    return 2 + op


@obligation(params=dict(op=Int(0, 6), a=Int(), b=Int(), **_STATE),
            tags={2 + k: n for k, n in enumerate(SCROLL_OPS)}, timeout=600,
            split=('op',), thorough=_THOROUGH,
            note='scrolling: rows inside the region shift by one, rows outside and all columns keep their content, the '
                 'grid keeps its shape for every region; region setters clamp into the screen; lf/crlf/newline')
def W3_scroll(op, a, b, cr, cc, rs, re, sr, sc, shape=0):
    _set_shape(pick(shape, 0, 4))
    if _off_screen(cr, cc, rs, re, sr, sc):
        return SKIP
    op = pick(op, 0, 6)
    s = mk_screen(cr, cc, rs, re, sr, sc)
    g0 = ref_grid()
    if op == 0 or op == 1:
        if op == 0:
            s.scroll_up()
        else:
            s.scroll_down()
        if not shape_ok(s):
            return 0
        moved = False
        for i in range(ROWS):
            r = i + 1
            if op == 0 and rs <= r < re:
                if s.w[i] != g0[i + 1]:
                    return 0
                moved = True
            elif op == 1 and rs < r <= re:
                if s.w[i] != g0[i - 1]:
                    return 0
                moved = True
            elif not (rs <= r <= re):
                if s.w[i] != g0[i]:
                    return 0
        if (s.cur_r, s.cur_c, s.scroll_row_start, s.scroll_row_end) != (cr, cc, rs, re):
            return 0
        return 2 + op
    if op == 2:
        s.scroll_screen_rows(a, b)
        if not shape_ok(s) or not same(s, g0):
            return 0
        if not (1 <= s.scroll_row_start <= ROWS and 1 <= s.scroll_row_end <= ROWS):
            return 0
        if 1 <= a <= ROWS and s.scroll_row_start != a:
            return 0
        if 1 <= b <= ROWS and s.scroll_row_end != b:
            return 0
        # whatever was asked for, scrolling afterwards keeps the grid intact
        s.scroll_up()
        s.scroll_down()
        return 2 + op if shape_ok(s) else 0
    if op == 3:
        s.scroll_screen()
        if (s.scroll_row_start, s.scroll_row_end) != (1, ROWS) or not same(s, g0):
            return 0
        return 2 + op
    # lf / crlf / newline: move down, or at the last row scroll the region up and blank the current line
    if op == 4:
        s.lf()
        ec = cc
    elif op == 5:
        s.crlf()
        ec = 1
    else:
        s.newline()
        ec = 1
    if not shape_ok(s) or s.cur_c != ec:
        return 0
    if cr < ROWS:
        if s.cur_r != cr + 1 or not same(s, g0):
            return 0
        return 2 + op
    if s.cur_r != ROWS:
        return 0
    for j in range(COLS):
        if s.w[ROWS - 1][j] != ' ':
            return 0
    for i in range(ROWS - 1):
        r = i + 1
        if rs <= r < re:
            if s.w[i] != g0[i + 1]:
                return 0
        elif not (rs <= r <= re):
            if s.w[i] != g0[i]:
                return 0
    return 2 + op


@obligation(params=dict(op=Int(0, 5), a=Int(), b=Int(), c=Int(), d=Int(), **_STATE),
            tags={2 + k: n for k, n in enumerate(ACC_OPS)}, timeout=600, split=('op',), thorough=_THOROUGH,
            note='read accessors (get, get_abs, get_region, dump, str, pretty) all describe the same grid and change nothing')
def W4_accessors(op, a, b, c, d, cr, cc, rs, re, sr, sc, shape=0):
    _set_shape(pick(shape, 0, 4))
    if _off_screen(cr, cc, rs, re, sr, sc):
        return SKIP
    op = pick(op, 0, 5)
    s = mk_screen(cr, cc, rs, re, sr, sc)
    g = ref_grid()
    if op == 0:
        if s.get_abs(a, b) != g[clamp(a, 1, ROWS) - 1][clamp(b, 1, COLS) - 1]:
            return 0
    elif op == 1:
        if s.get() != g[cr - 1][cc - 1]:
            return 0
    elif op == 2:
        got = s.get_region(a, b, c, d)
        r1, r2 = clamp(a, 1, ROWS), clamp(c, 1, ROWS)
        c1, c2 = clamp(b, 1, COLS), clamp(d, 1, COLS)
        if r1 > r2:
            r1, r2 = r2, r1
        if c1 > c2:
            c1, c2 = c2, c1
        want = [''.join(g[i][c1 - 1:c2]) for i in range(r1 - 1, r2)]
        if got != want:
            return 0
    elif op == 3:
        if s.dump() != CELLS:
            return 0
    elif op == 4:
        if str(s) != '\n'.join(CELLS[i * COLS:(i + 1) * COLS] for i in range(ROWS)):
            return 0
    else:
        frame = '+' + '-' * COLS + '+\n'
        if s.pretty() != frame + ''.join('|' + CELLS[i * COLS:(i + 1) * COLS] + '|\n' for i in range(ROWS)) + frame:
            return 0
    if not same(s, g) or (s.cur_r, s.cur_c, s.scroll_row_start, s.scroll_row_end) != (cr, cc, rs, re):
        return 0
    return 2 + op


def dry_runs():
    st = dict(cr=2, cc=3, rs=1, re=3, sr=1, sc=1)
    for op in range(12):
        yield 'W1_writes', dict(op=op, a=2, b=9, c=-1, d=2, **st)
        yield 'W1_writes', dict(op=op, a=2, b=9, c=-1, d=2, multi=True, **st)
    for op in range(13):
        yield 'W2_cursor', dict(op=op, a=2, b=1, **st)
    for op in range(7):
        yield 'W3_scroll', dict(op=op, a=0, b=9, **dict(st, cr=3))
    for op in range(6):
        yield 'W4_accessors', dict(op=op, a=2, b=9, c=-1, d=2, **st)
    for shape in (1, 2, 3, 4):
        one = dict(cr=1, cc=1, rs=1, re=1, sr=1, sc=1)
        for op in range(12):
            yield 'W1_writes', dict(op=op, a=2, b=9, c=-1, d=2, shape=shape, **one)
            yield 'W1_writes', dict(op=op, a=1, b=1, c=0, d=7, shape=shape, asb=True, **one)
            yield 'W1_writes', dict(op=op, a=1, b=1, c=0, d=7, shape=shape, multi=True, **one)
        for op in range(7):
            yield 'W3_scroll', dict(op=op, a=0, b=9, shape=shape, **one)
        for op in range(6):
            yield 'W4_accessors', dict(op=op, a=2, b=9, c=-1, d=2, shape=shape, **one)


PROBES = ['screen']      # representation probes (harness/probes.py) this harness depends on


MANIFEST_ENTRY = {
    'level_text': 'Bounded symbolic verification of every documented pexpect.screen operation against a reference '
                  'grid written from the docstrings: 3x4 screen with distinct cells, arbitrary valid cursor / saved '
                  'cursor / scroll region as symbolic pre-state, UNBOUNDED symbolic integer arguments; exact cell-by-'
                  'cell and field-by-field equality (frame condition included) after one operation, which covers '
                  'operation sequences of any length by induction; read accessors agree with the grid.',
    'level_note': 'Screen size 3x4 (quick), plus 1x1, 1x3, 2x1, 4x5 (thorough); nothing asserted where the docstrings '
                  'are silent (vacated row content, Reverse Index scroll direction).',
}
