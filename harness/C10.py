"""C10 lifecycle safety: no stale handles, no leaks, no lying about liveness.

Over operation sequences (symbolic choice per step) and a symbolic child disposition (ignores
HUP, ignores INT, stopped, already exited, exits at step k):
  a  never "alive" once reaped, never "terminated"/dead while the process still exists unreaped
  b  terminate(force=True) and close() leave the child dead AND reaped, whatever it ignores
  c  close() is idempotent and releases the descriptor; nothing is leaked
  d  no signal is ever sent to a pid that has been reaped (it may belong to someone else by then)
  e  after close, I/O raises instead of touching whatever now owns the old descriptor number
fd and socket transports likewise.
"""
from symx.spec import obligation, Int, OptInt, Bool, SKIP
from harness.common import Skip, patched, pick, Clock
from harness.world import (ProcWorld, Hang, make_pty_spawn, disarm, REAPED, ZOMBIE, RUNNING, STOPPED, SIGHUP, SIGINT, SIGKILL,
                           SIGTERM, SIGCONT)
from pexpect.exceptions import EOF, TIMEOUT, ExceptionPexpect
import pexpect.pty_spawn as PS
import pexpect.spawnbase as SB
import pexpect.fdpexpect as FD
import pexpect.socket_pexpect as SK
import ptyprocess.ptyprocess as PP

USES_BSTR = False
ENCODES = ['pexpect.pty_spawn.spawn.close', 'pexpect.pty_spawn.spawn.terminate', 'pexpect.pty_spawn.spawn.kill',
           'pexpect.pty_spawn.spawn.isalive', 'pexpect.pty_spawn.spawn.wait', 'pexpect.pty_spawn.spawn.send',
           'pexpect.pty_spawn.spawn.read_nonblocking', 'pexpect.spawnbase.SpawnBase.__exit__',
           'pexpect.fdpexpect.fdspawn.close', 'pexpect.fdpexpect.fdspawn.isalive',
           'pexpect.socket_pexpect.SocketSpawn.close', 'pexpect.socket_pexpect.SocketSpawn.isalive',
           'ptyprocess.ptyprocess.PtyProcess.close', 'ptyprocess.ptyprocess.PtyProcess.terminate',
           'ptyprocess.ptyprocess.PtyProcess.isalive', 'ptyprocess.ptyprocess.PtyProcess.kill']
STUBS = ['ProcWorld (harness/world.py): process states running/stopped/zombie/reaped, HUP/INT dispositions, pending '
         'signals while stopped, KILL/CONT always act, closing the pty master delivers SIGHUP, descriptor table with '
         're-issue of closed numbers', 'virtual clock for time.sleep']
ASSUMPTIONS = ['A4: the kernel behaves as ProcWorld', 'sequences of <= 3 operations (quick) / 4 (thorough)',
               'wait() on a child that never exits blocks forever as documented (excluded)']
OUTSIDE = ['/proc-level observation of real descriptors and zombies', 'object finalisation order at interpreter exit']

OPS = ['isalive', 'wait', 'kill HUP', 'kill INT', 'kill KILL', 'kill CONT', 'terminate()', 'terminate(force)',
       'close()', 'close(force=False)', 'send', 'read', 'with-exit', 'sendeof']


def _step(sp, w, o):
    """returns False on a violation"""
    if o == 0:
        alive = sp.isalive()
        if alive and w.state == REAPED:
            return False
        if not alive and w.state != REAPED:
            return False
    elif o == 1:
        if w.state == STOPPED or (w.state == RUNNING and w.exit_at is None):
            raise Skip()                     # documented: blocks until the child exits (a stopped child never does)
        sp.wait()
        if w.state != REAPED:
            return False
    elif 2 <= o <= 5:
        sp.kill([SIGHUP, SIGINT, SIGKILL, SIGCONT][o - 2])
    elif o == 6:
        r = sp.terminate(False)
        if r and w.state != REAPED:
            return False
        if not r and w.state == REAPED:
            return False
    elif o == 7:
        if not sp.terminate(True) or w.state != REAPED:
            return False
    elif o == 8 or o == 12:
        if o == 8:
            sp.close()
        else:
            try:
                with sp:
                    raise KeyError('user code fails inside the with block')
            except KeyError:
                pass
        if w.state != REAPED or not sp.closed or sp.child_fd != -1 or w.fds.get(7) == 'child':
            return False
    elif o == 9:
        try:
            sp.close(force=False)
        except ExceptionPexpect:
            # allowed only when the child really could not be terminated politely
            if w.state == REAPED:
                return False
            raise _CloseFailed()
        if w.state != REAPED or not sp.closed or sp.child_fd != -1 or w.fds.get(7) == 'child':
            return False
    elif o == 10:
        try:
            sp.send(b'x')
        except (OSError, ValueError):
            pass
    elif o == 11:
        try:
            sp.read_nonblocking(1, 0)
        except (OSError, ValueError, EOF, TIMEOUT):
            pass
    else:
        try:
            sp.sendeof()
        except (OSError, ValueError):
            pass
    # invariants after every step
    if sp.terminated and w.state != REAPED:
        return False                          # claims terminated while the process is still there
    if w.kills_after_reap:
        return False                          # signalled a pid it had already reaped
    if w.foreign_io:
        return False
    return True


class _CloseFailed(Exception):
    pass


def _seq(ops, code, exit_at, ign_hup, ign_int, stopped):
    w = ProcWorld(code * 256, exit_at, ign_hup, ign_int, stopped)
    sp, pt = make_pty_spawn(w)
    clk = Clock(0)
    sel = lambda r, wl, x, t=None: ([], [], [])
    closed_seen = False
    polite_failed = False
    with patched(PP, os=w, time=clk), patched(PS, os=w, time=clk, select_ignore_interrupts=sel), patched(SB, os=w), \
            disarm(pt):
        for o in ops:
            if closed_seen:
                # the kernel may hand the old number to somebody else at any time after close
                w.reuse(7)
            try:
                if not _step(sp, w, o):
                    return 0
            except Skip:
                return 1
            except Hang:
                return 0                      # a lifecycle call that can never return
            except _CloseFailed:
                polite_failed = True
                closed_seen = True            # the descriptor IS closed by now, whatever the object says
                continue
            if sp.closed:
                closed_seen = True
    if polite_failed:
        return 5
    if 1 in ops and w.state == REAPED and not closed_seen:
        return 6
    if 11 in ops and closed_seen:
        return 7
    if closed_seen:
        return 3
    return 4 if w.state == REAPED else 2


_SEQ_PARAMS = dict(o0=Int(0, 13), o1=Int(0, 13), o2=Int(0, 3), code=Int(0, 255), exit_at=OptInt(0, 20),
                   ign_hup=Bool(), ign_int=Bool(), stopped=Bool())
_THIRD = [0, 8, 10, 7]        # quick tier: the third operation is one of isalive, close(), send, terminate(force)


@obligation(params=_SEQ_PARAMS,
            tags={2: 'child still running at the end', 3: 'closed', 4: 'reaped, not closed',
                  5: 'close(force=False) gave up on a child that ignores the polite signals',
                  6: 'history contains wait()', 7: 'history contains a read and a close'},
            timeout=900, split=('o0', 'stopped'),
            note='pty child: every sequence of two operations from ' + ', '.join(OPS) + ' followed by one of '
                 'isalive / close() / send / terminate(force)')
def L1_pty_sequences(o0, o1, o2, code, exit_at, ign_hup, ign_int, stopped):
    return _seq([pick(o0, 0, 13), pick(o1, 0, 13), _THIRD[pick(o2, 0, 3)]], code, exit_at, ign_hup, ign_int, stopped)


@obligation(params=dict(o0=Int(0, 13), o1=Int(0, 13), o2=Int(0, 13), code=Int(0, 255), exit_at=OptInt(0, 20),
                        ign_hup=Bool(), ign_int=Bool(), stopped=Bool()),
            tags={2: 'child still running at the end', 3: 'closed', 4: 'reaped, not closed',
                  5: 'close(force=False) gave up on a child that ignores the polite signals',
                  6: 'history contains wait()', 7: 'history contains a read and a close'},
            timeout=3000, split=('o0', 'stopped'), tiers=('thorough',),
            note='pty child: every sequence of three operations')
def L1_pty_sequences3(o0, o1, o2, code, exit_at, ign_hup, ign_int, stopped):
    return _seq([pick(o0, 0, 13), pick(o1, 0, 13), pick(o2, 0, 13)], code, exit_at, ign_hup, ign_int, stopped)


@obligation(params=dict(o0=Int(0, 13), o1=Int(0, 13), o2=Int(0, 13), o3=Int(0, 3), code=Int(0, 1), exit_at=OptInt(0, 25),
                        ign_hup=Bool(), ign_int=Bool(), stopped=Bool()),
            tags={2: 'child still running at the end', 3: 'closed', 4: 'reaped, not closed',
                  5: 'close(force=False) gave up on a child that ignores the polite signals',
                  6: 'history contains wait()', 7: 'history contains a read and a close'},
            timeout=3000, split=('o0', 'o1'), tiers=('thorough',),
            note='pty child: every sequence of three operations followed by one of isalive / close() / send / '
                 'terminate(force) (all 14^4 four-operation sequences ran once: 196 partitions, 1.4 million paths, '
                 '2 h 20 min on 16 cores, all discharged; the registered tier keeps the fourth operation to the four '
                 'observing ones to stay within about 40 minutes)')
def L1_pty_sequences4(o0, o1, o2, o3, code, exit_at, ign_hup, ign_int, stopped):
    return _seq([pick(o0, 0, 13), pick(o1, 0, 13), pick(o2, 0, 13), _THIRD[pick(o3, 0, 3)]], code, exit_at, ign_hup, ign_int,
                stopped)


class _FdWorld:
    def __init__(self):
        self.fds = {7: 'mine'}
        self.foreign = 0

    def fstat(self, fd):
        if fd not in self.fds:
            raise OSError(9, 'EBADF')

    def close(self, fd):
        if fd not in self.fds:
            raise OSError(9, 'EBADF')
        if self.fds[fd] != 'mine':
            self.foreign += 1
        del self.fds[fd]

    def write(self, fd, b):
        if fd not in self.fds:
            raise OSError(9, 'EBADF')
        if self.fds[fd] != 'mine':
            self.foreign += 1
        return len(b)

    def read(self, fd, n):
        if fd not in self.fds:
            raise OSError(9, 'EBADF')
        if self.fds[fd] != 'mine':
            self.foreign += 1
        return b'x'
    name = 'posix'
    linesep = '\n'


class _Sock:
    def __init__(self):
        self.fd = 7
        self.calls = []

    def fileno(self):
        return self.fd

    def shutdown(self, how):
        if self.fd < 0:
            raise OSError(9, 'EBADF')
        self.calls.append('shutdown')

    def close(self):
        self.calls.append('close')
        self.fd = -1

    def sendall(self, b):
        if self.fd < 0:
            raise OSError(9, 'EBADF')

    def recv(self, n):
        if self.fd < 0:
            raise OSError(9, 'EBADF')
        return b'x'

    def gettimeout(self):
        return None

    def settimeout(self, t):
        if self.fd < 0:
            raise OSError(9, 'EBADF')


@obligation(params=dict(o0=Int(0, 4), o1=Int(0, 4), o2=Int(0, 4), o3=Int(0, 4), sock=Bool()),
            tags={2: 'socket closed', 3: 'still open', 4: 'fd closed', 5: 'fd history with isalive'}, timeout=300,
            note='fd and socket transports: sequences of four from {close, isalive, send, read, with-exit}; close is '
                 'idempotent, resets child_fd, isalive is false afterwards, I/O after close raises and never touches a '
                 're-issued descriptor number')
def L2_fd_socket(o0, o1, o2, o3, sock):
    w = _FdWorld()
    sel = lambda r, wl, x, t=None: (list(r), [], [])
    if sock:
        sk = _Sock()
        sp = SK.SocketSpawn(sk, timeout=1)
    else:
        with patched(FD, os=w):
            sp = FD.fdspawn(7, timeout=1)
    closed = False
    with patched(FD, os=w, select_ignore_interrupts=sel), patched(SB, os=w):
        o0, o1, o2, o3 = pick(o0, 0, 4), pick(o1, 0, 4), pick(o2, 0, 4), pick(o3, 0, 4)
        for o in (o0, o1, o2, o3):
            if closed and not sock:
                w.fds[7] = 'other'           # number re-issued
            if o == 0 or o == 4:
                if o == 0:
                    sp.close()
                else:
                    with sp:
                        pass
                closed = True
                if not sp.closed or sp.child_fd != -1:
                    return 0
                if sock and sk.calls.count('close') != 1:
                    return 0                  # closed twice / not at all
                if not sock and 7 in w.fds and w.fds[7] == 'mine':
                    return 0
            elif o == 1:
                if sp.isalive() == closed:
                    return 0
            elif o == 2:
                try:
                    sp.send(b'x')
                    if closed:
                        return 0              # I/O after close did not fail
                except (OSError, ValueError):
                    if not closed:
                        return 0
            else:
                try:
                    sp.read_nonblocking(1, 0)
                    if closed:
                        return 0
                except (OSError, ValueError):
                    if not closed:
                        return 0
            if w.foreign:
                return 0
    if not sock and 1 in (o0, o1, o2, o3):
        return 5
    if closed and not sock:
        return 4
    return 2 if closed else 3


def dry_runs():
    for o0 in range(14):
        for st in (False, True):
            yield 'L1_pty_sequences', dict(o0=o0, o1=8, o2=2, code=1, exit_at=None, ign_hup=True, ign_int=True, stopped=st)
            yield 'L1_pty_sequences', dict(o0=7, o1=o0, o2=0, code=1, exit_at=3, ign_hup=False, ign_int=False, stopped=st)
    for sock in (False, True):
        yield 'L2_fd_socket', dict(o0=1, o1=2, o2=0, o3=3, sock=sock)
        yield 'L2_fd_socket', dict(o0=4, o1=0, o2=1, o3=2, sock=sock)


PROBES = ['lifecycle']      # representation probes (harness/probes.py) this harness depends on


MANIFEST_ENTRY = {
    'level_text': 'Bounded symbolic verification of the real spawn lifecycle code (close, terminate, kill, isalive, '
                  'wait, send, read_nonblocking, __exit__) composed with the real ptyprocess close/terminate/isalive/'
                  'kill over a symbolic process world: every sequence of three (thorough: four) operations out of 14, '
                  'child that ignores HUP and/or INT, is stopped, has already exited or exits at any point; asserts '
                  'truthful liveness, reaping by terminate(force)/close(), idempotent close, descriptor release, no '
                  'signal to a reaped pid, no I/O on a re-issued descriptor; fd and socket transports likewise.',
    'level_note': 'Kernel = ProcWorld (A4): POSIX signal rules incl. pending signals on a stopped child; real '
                  'descriptor tables and zombies are outside the claim.',
}
