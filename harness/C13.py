"""C13 launch fidelity.

(a) split_command_line round trip: quoting any list of non-empty arguments (three styles) and
    joining them with whitespace - with or without leading/trailing whitespace - yields exactly
    that list; argument characters are arbitrary code points.
(b) which(): explicit path, else first executable hit on the effective PATH (env's PATH over
    os.environ's, os.defpath when missing/empty); is_executable_file.
(c) spawn._spawn hands argv/cwd/env/echo/dimensions/preexec_fn to the pty layer unchanged and
    wraps preexec_fn so that SIGHUP is ignored first when ignore_sighup is set.
"""
from symx.spec import obligation, Text, Int, OptInt, Bool, SKIP
from symx.bstr import lit, tracing
from harness.common import pick, patched, Skip
import pexpect.utils as U
import pexpect.pty_spawn as PS

ENCODES = ['pexpect.utils.split_command_line', 'pexpect.utils.which', 'pexpect.utils.is_executable_file',
           'pexpect.pty_spawn.spawn._spawn', 'pexpect.pty_spawn.spawn.__init__']
STUBS = ['os.path/os.environ/os.access inside pexpect.utils: symbolic file-system facts (which candidate is an '
         'executable file)', 'spawn._spawnpty (the ptyprocess call) captured', 'signal.signal recorded']
ASSUMPTIONS = ['<= 2 (quick) / 3 (thorough) arguments of 1..2 characters, any code points; styles: backslash before every character, single '
               'quotes (argument without \'), double quotes (argument without "); separators: space, tab, newline, '
               'two spaces', 'that ptyprocess and the kernel honour cwd/env/echo/dimensions/preexec_fn is outside the claim']
OUTSIDE = ['what the child process really sees (argv/cwd/environ/winsize/termios/signal disposition)']

SEPS = [' ', '\t', '\n', '  ', ' \t ']


def _quote(a, style):
    """-> quoted text, or None if this style cannot express the argument"""
    n = len(a)
    if style == 0:
        out = lit('')
        i = 0
        while i < n:
            out = out + '\\' + a[i]
            i += 1
        return out
    if style == 1:
        if a.find("'") >= 0:
            return None
        return lit("'") + a + "'"
    if a.find('"') >= 0:
        return None
    return lit('"') + a + '"'


@obligation(params=dict(a1=Text(2, min=1), a2=Text(2, min=1), a3=Text(2, min=1), nargs=Int(1, 2), s1=Int(0, 2), s2=Int(0, 2),
                        s3=Int(0, 2), sep=Int(0, 4), lead=Bool(), trail=Bool()),
            tags={2: 'one argument', 3: 'two arguments', 4: 'three arguments'}, timeout=900,
            split=('nargs', 's1', 'lead'), quick_omit_tags=(4,),
            thorough=dict(params=dict(nargs=Int(1, 3)), timeout=3000, split=('nargs', 's1', 's2', 'lead')),
            note='(a) round trip of split_command_line; argument characters are unconstrained code points')
def A_split_roundtrip(a1, a2, a3, nargs, s1, s2, s3, sep, lead, trail):
    nargs = pick(nargs, 1, 3)
    args = [a1, a2, a3][:nargs]
    styles = [pick(s1, 0, 2), pick(s2, 0, 2), pick(s3, 0, 2)][:nargs]
    sp = SEPS[pick(sep, 0, 4)]
    line = lit(' \t') if lead else lit('')
    for k in range(nargs):
        q = _quote(args[k], styles[k])
        if q is None:
            return SKIP
        if k:
            line = line + sp
        line = line + q
    if trail:
        line = line + ' \n'
    got = U.split_command_line(line)
    if len(got) != nargs:
        return 0
    for k in range(nargs):
        if not (got[k] == args[k]):
            return 0
    return 1 + nargs


class _FakePath:
    def __init__(self, fs):
        self.fs = fs

    def dirname(self, p):
        i = p.rfind('/')
        return p[:i] if i > 0 else ('/' if i == 0 else '')

    def join(self, a, b):
        if b.startswith('/'):
            return b
        if a == '' or a.endswith('/'):
            return a + b
        return a + '/' + b

    def realpath(self, p):
        return self.fs.links.get(p, p)

    def isfile(self, p):
        return self.fs.kind.get(_norm(p)) == 'f'

    # the rest of the os.path surface a which() implementation may reasonably use
    sep = '/'

    def isdir(self, p):
        return self.fs.kind.get(_norm(p)) == 'd'

    def exists(self, p):
        return _norm(p) in self.fs.kind

    def islink(self, p):
        return p in self.fs.links

    def isabs(self, p):
        return p.startswith('/')

    def basename(self, p):
        return p[p.rfind('/') + 1:]

    def split(self, p):
        return (self.dirname(p), self.basename(p))

    def abspath(self, p):
        return _norm(p if p.startswith('/') else '/cwd/' + p)

    def normpath(self, p):
        return _norm(p)

    def expanduser(self, p):
        return p


def _norm(p):
    """the kernel's view of a path: '/./' segments vanish ('./x' stays relative)"""
    while '/./' in p:
        p = p.replace('/./', '/')
    return p


class _FakeOSFS:
    X_OK = 1
    pathsep = ':'
    defpath = '/bin:/usr/bin'

    def __init__(self, kind, xok, links, environ):
        self.kind, self.xok, self.links, self.environ = kind, xok, links, environ
        self.path = _FakePath(self)

    def access(self, p, mode):
        return bool(self.xok.get(_norm(p)))

    def stat(self, p):
        class R:
            st_mode = 0
        return R()

    def getuid(self):
        return 1000


@obligation(params=dict(xa=Bool(), xb=Bool(), xbin=Bool(), xhere=Bool(), fa=Bool(), fb=Bool(), envk=Int(0, 4), osk=Int(0, 3),
                        explicit=Int(0, 2)),
            tags={2: 'found on PATH', 3: 'not found', 4: 'explicit path', 5: 'defpath fallback'}, timeout=300,
            note='(b) which(): candidates /a/prog, /b/prog, /bin/prog exist as file or directory and are executable or '
                 'not (symbolic); PATH from env argument / os.environ / missing / empty')
def B_which(xa, xb, xbin, xhere, fa, fb, envk, osk, explicit):
    kind = {'/a/prog': 'f' if fa else 'd', '/b/prog': 'f' if fb else 'd', '/bin/prog': 'f', './prog': 'f', '/x/prog': 'f'}
    xok = {'/a/prog': xa, '/b/prog': xb, '/bin/prog': xbin, './prog': xhere, '/x/prog': xhere}
    environ = [{}, {'PATH': ''}, {'PATH': '/a:/b'}, {'PATH': '/b:/a'}][pick(osk, 0, 3)]
    env = [None, {}, {'PATH': ''}, {'PATH': '/a:/b'}, {'PATH': '/b:/a'}][pick(envk, 0, 4)]
    fs = _FakeOSFS(kind, xok, {}, environ)
    name = ['prog', './prog', '/x/prog'][pick(explicit, 0, 2)]
    with patched(U, os=fs):
        r = U.which(name, env=env)

    def ok(p):
        return kind.get(_norm(p)) == 'f' and bool(xok.get(_norm(p)))
    if explicit and ok(name):
        return 4 if r == name else 0
    eff = environ if env is None else env
    p = eff.get('PATH') or fs.defpath
    want = None
    for d in p.split(':'):
        cand = d + '/' + name if not name.startswith('/') else name
        if name.startswith('./'):
            cand = d + '/' + name
        if ok(cand):
            want = cand
            break
    if r != want:
        return 0
    if want is None:
        return 3
    return 5 if not eff.get('PATH') else 2


class _CapSpawn(PS.spawn):
    captured = None

    def _spawnpty(self, args, **kwargs):
        _CapSpawn.captured = (list(args), dict(kwargs))

        class _P:
            pid = 77
            fd = 9
        return _P()


class _Sig:
    SIGHUP = 1
    SIG_IGN = 'IGN'

    def __init__(self):
        self.calls = []

    def signal(self, s, h):
        self.calls.append((s, h))


@obligation(params=dict(echo=Bool(), ign=Bool(), dims=Bool(), pre=Bool(), enc=Bool(), aslist=Bool(), envk=Bool(), cwdk=Bool()),
            tags={2: 'command line split', 3: 'argument list given'}, timeout=300,
            note='(c) _spawn: argv (split or as given, encoded in unicode mode), cwd, env, echo, dimensions reach the '
                 'pty layer unchanged; preexec_fn is passed through, or wrapped (SIGHUP ignored, then the user function) '
                 'when ignore_sighup is set')
def C_spawn_plumbing(echo, ign, dims, pre, enc, aslist, envk, cwdk):
    calls = []

    def user_pre():
        calls.append('user')
    env = {'A': 'b', 'PATH': '/bin'} if envk else None
    cwd = '/tmp/somewhere' if cwdk else None
    dim = (31, 97) if dims else None
    sig = _Sig()
    kw = dict(echo=echo, ignore_sighup=ign, dimensions=dim, preexec_fn=user_pre if pre else None,
              encoding='utf-8' if enc else None, env=env, cwd=cwd)
    with patched(PS, which=lambda c, env=None: '/bin/' + c, signal=sig):
        if aslist:
            sp = _CapSpawn('prog', ['x y', "q'z"], **kw)
        else:
            sp = _CapSpawn("prog 'x y' q\\'z", **kw)
        args, kwargs = _CapSpawn.captured
        want = ['/bin/prog', 'x y', "q'z"]
        if enc:
            want = [w.encode('utf-8') for w in want]
        if args != want:
            return 0
        if kwargs.get('env') is not env or kwargs.get('cwd') is not cwd or kwargs.get('echo') is not echo:
            return 0
        if dims:
            if kwargs.get('dimensions') != dim:
                return 0
        elif 'dimensions' in kwargs:
            return 0
        fn = kwargs.get('preexec_fn')
        if ign:
            if fn is None or fn is user_pre:
                return 0
            fn()
            if sig.calls != [(1, 'IGN')] or calls != (['user'] if pre else []):
                return 0
        else:
            if fn is not (user_pre if pre else None):
                return 0
        if sp.pid != 77 or sp.child_fd != 9 or sp.closed or sp.terminated:
            return 0
    return 3 if aslist else 2


def dry_runs():
    yield 'B_which', dict(xa=True, xb=True, xbin=True, xhere=True, fa=True, fb=True, envk=3, osk=0, explicit=0)
    yield 'C_spawn_plumbing', dict(echo=True, ign=True, dims=True, pre=True, enc=True, aslist=False, envk=True, cwdk=True)


PROBES = []      # representation probes (harness/probes.py) this harness depends on


MANIFEST_ENTRY = {
    'level_text': 'Bounded symbolic verification of the real split_command_line (round trip for up to 3 arguments of '
                  '1-2 unconstrained code points, three quoting styles, five separators, leading/trailing whitespace), '
                  'which()/is_executable_file over symbolic file-system facts, and spawn._spawn plumbing over all '
                  'option combinations.',
    'level_note': 'What the child really sees (A4/A6: ptyprocess, kernel) is outside the claim; longer arguments and '
                  'lists are outside the bound.',
}
