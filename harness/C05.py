"""C05 deadlines on a virtual integer clock.

A  expect_loop against ANY transport obeying the read contract R
   (R: returns data / raises EOF within max(t,0); raises TIMEOUT not before t has passed;
    never raises TIMEOUT for t=None)  finishes within T + delayafterread*reads and reports
   TIMEOUT only when T has elapsed; None never times out; 0 still searches the pending text and
   does one read; -1 is the instance default.
B  every transport's read_nonblocking satisfies R under the world contracts (timed world).
C  select_ignore_interrupts / poll_ignore_interrupts with up to 2 EINTRs keep the total wait
   <= t and never report "not ready" early.
D  waitnoecho follows the same conventions.
"""
import errno

from symx.spec import obligation, Int, OptInt, Bool, Text, SKIP
from harness.common import Skip, patched, pick, Clock
from pexpect.exceptions import EOF, TIMEOUT
from pexpect.spawnbase import SpawnBase
import pexpect.expect as E
import pexpect.pty_spawn as PS
import pexpect.spawnbase as SB
import pexpect.fdpexpect as FD
import pexpect.popen_spawn as PO
import pexpect.socket_pexpect as SK
import pexpect.utils as U
import ptyprocess.ptyprocess as PP
import socket as _socket

USES_BSTR = True
ENCODES = ['pexpect.expect.Expecter.expect_loop', 'pexpect.spawnbase.SpawnBase.expect_exact',
           'pexpect.spawnbase.SpawnBase.expect', 'pexpect.spawnbase.SpawnBase.expect_list', 'pexpect.spawnbase.SpawnBase.expect_loop',
           'pexpect.pty_spawn.spawn.read_nonblocking', 'pexpect.pty_spawn.spawn.isalive',
           'pexpect.fdpexpect.fdspawn.read_nonblocking', 'pexpect.socket_pexpect.SocketSpawn.read_nonblocking',
           'pexpect.popen_spawn.PopenSpawn.read_nonblocking', 'pexpect.utils.select_ignore_interrupts',
           'pexpect.utils.poll_ignore_interrupts', 'pexpect.pty_spawn.spawn.waitnoecho',
           'ptyprocess.ptyprocess.PtyProcess.isalive']
STUBS = ['Clock: integer ticks; sleep(d) advances exactly d (waitnoecho: one tick per 0.1 s poll)',
         'Abstract transport obeying R (durations symbolic, unbounded)',
         'TimedWorld: peer actions (write, close terminal, exit) at symbolic absolute times; non-blocking system '
         'calls take no time; select(t) returns when readable or after exactly t; waitpid(WNOHANG) never blocks; '
         'waitpid(0) blocks until the scripted exit (never, if there is none)',
         'FakeSelect: k-th select/poll call is interrupted (EINTR) after d_k <= timeout, or completes']
ASSUMPTIONS = ['"small bounded overhead" is 0 ticks in the model except explicit sleeps',
               'signal handlers that raise are outside the claim', '<= 3 reads per expect call, <= 2 EINTR, <= 3 peer events']
OUTSIDE = ['PopenSpawn.read_nonblocking(timeout=None) timing (float 1e6 constant: solver inconclusive)', 'real scheduler latency', 'Irix 2-second hack (dead branch on other platforms)']


# ------------------------------------------------------------------ A
class Abstract(SpawnBase):
    """k-th read takes durs[k] ticks and is kinds[k]: 0 data (no match), 1 TIMEOUT, 2 EOF."""

    def __init__(self, clock, kinds, durs, **kw):
        SpawnBase.__init__(self, **kw)
        self.clock, self.kinds, self.durs = clock, list(kinds), list(durs)
        self.calls = 0
        self.timeouts = []
        self.started = []

    def read_nonblocking(self, size=1, timeout=None):
        k = self.kinds.pop(0) if self.kinds else 1
        d = self.durs.pop(0) if self.durs else 0
        self.calls += 1
        self.timeouts.append(timeout)
        self.started.append(self.clock.now)
        lim = None if timeout is None else (timeout if timeout > 0 else 0)
        if k == 1:
            if lim is None:
                raise Skip()               # R: cannot time out with t=None
            self.clock.now += lim
            raise TIMEOUT('t')
        if lim is not None and d > lim:
            d = lim
        self.clock.now += d
        if k == 2:
            raise EOF('e')
        return b'x'


@obligation(params=dict(t0=Int(0), T=Int(0), tmode=Int(0, 3), k0=Int(0, 2), k1=Int(0, 2), k2=Int(0, 2),
                        d0=Int(0), d1=Int(0), d2=Int(0), dar=Int(0, 5), pend=Bool()),
            tags={2: 'TIMEOUT at the deadline', 3: 'EOF', 4: 'pending match', 5: 'timeout None ends by EOF'},
            timeout=200, split=('tmode',),
            note='A: overall deadline of expect_loop; T, start time and all read durations are unbounded integers')
def A_deadline(t0, T, tmode, k0, k1, k2, d0, d1, d2, dar, pend, k3=None, d3=0, k4=None, d4=0):
    clk = Clock(t0)
    tmode = pick(tmode, 0, 3)
    kinds = [k0, k1, k2] + ([k3] if k3 is not None else []) + ([k4] if k4 is not None else [])
    sp = Abstract(clk, kinds, [d0, d1, d2, d3, d4][:len(kinds)], timeout=T)
    sp.delayafterread = dar if dar else None
    timeout = [None, 0, T, -1][tmode]
    eff = [None, 0, T, T][tmode]
    if pend:
        sp._before.write(b'..never')
        sp._buffer.write(b'..never')
    with patched(E, time=clk):
        try:
            i = sp.expect_exact([b'never', EOF, TIMEOUT], timeout=timeout)
        except Skip:
            return SKIP
    el = clk.now - t0
    if pend:
        return 4 if (i == 0 and el == 0 and sp.calls == 0) else 0
    if sp.calls < 1:
        return 0                           # even timeout 0 reads once
    if sp.timeouts[0] != eff:
        return 0
    if eff is None:
        return 5 if i == 1 else 0
    if el > eff + dar * sp.calls:
        return 0                           # overall bound exceeded
    for at in sp.started:
        if at > t0 + eff:
            return 0                       # a read was started although the deadline had already passed
    if i == 2:
        if el < eff:
            return 0                       # TIMEOUT before T elapsed
        return 2
    return 3 if i == 1 else 0


@obligation(params=dict(t0=Int(0), T=Int(0), tmode=Int(0, 3), k0=Int(0, 2), k1=Int(0, 2), k2=Int(0, 2), k3=Int(0, 2), k4=Int(0, 2),
                        d0=Int(0), d1=Int(0), d2=Int(0), d3=Int(0), d4=Int(0), dar=Int(0, 5)),
            tags={2: 'TIMEOUT at the deadline', 3: 'EOF', 5: 'timeout None ends by EOF'},
            timeout=2000, split=('tmode', 'k0'), tiers=('thorough',), note='A with five reads per call')
def A_deadline5(t0, T, tmode, k0, k1, k2, k3, k4, d0, d1, d2, d3, d4, dar):
    return A_deadline(t0, T, tmode, k0, k1, k2, d0, d1, d2, dar, False, k3, d3, k4, d4)


# ------------------------------------------------------------------ B
class TimedWorld:
    STATUS_EXIT0 = 0

    def __init__(self, now, written, rd, closed, exited, events):
        self.now, self.written, self.rd = now, written, rd
        self.closed = closed or exited       # terminal closed by the child side
        self.exited = exited
        self.reaped = False
        self.ev = list(events)               # [(time, op, val)] sorted
        self.blocked_on_running_child = False
        self.hung = False

    def _apply_due(self):
        while self.ev and self.ev[0][0] <= self.now:
            t, op, v = self.ev.pop(0)
            if op == 'w':
                if not self.closed and v > self.written:
                    self.written = v
            elif op == 'c':
                self.closed = True
            else:
                self.closed = True
                self.exited = True

    def readable(self):
        return self.written > self.rd or self.closed

    def select(self, timeout):
        self._apply_due()
        if self.readable():
            return True
        if timeout is not None and timeout <= 0:
            return False
        end = None if timeout is None else self.now + timeout
        while not self.readable():
            if self.ev and (end is None or self.ev[0][0] <= end):
                self.now = self.ev[0][0]
                self._apply_due()
            elif end is None:
                self.hung = True
                raise Skip()
            else:
                self.now = end
                self._apply_due()
                break
        return self.readable()

    def read(self, size):
        self._apply_due()
        avail = self.written - self.rd
        if avail == 0:
            if self.closed:
                raise OSError(errno.EIO, 'EIO')
            raise AssertionError('stub: read would block')
        n = size if size < avail else avail
        self.rd += n
        return b'x' * n

    # ---- process table (for the real ptyprocess.isalive)
    WNOHANG = 1

    def waitpid(self, pid, opts):
        self._apply_due()
        if self.reaped:
            raise OSError(errno.ECHILD, 'ECHILD')
        if not self.exited:
            if opts == self.WNOHANG:
                return (0, 0)
            # blocking wait on a running child
            self.blocked_on_running_child = True
            nxt = [e for e in self.ev if e[1] == 'x']
            if not nxt:
                self.hung = True
                raise _Hang()
            self.now = nxt[0][0]
            self._apply_due()
        self.reaped = True
        return (pid, 0)

    @staticmethod
    def WIFEXITED(s):
        return True

    @staticmethod
    def WEXITSTATUS(s):
        return 0

    @staticmethod
    def WIFSIGNALED(s):
        return False

    @staticmethod
    def WIFSTOPPED(s):
        return False


class _Hang(Exception):
    """the call blocked forever (no event can end it)"""


class _OS:
    def __init__(self, w):
        self.w = w

    def read(self, fd, size):
        return self.w.read(size)


def _mk_world(now, w0, r0, st, e1, e2, e3, k2, k3, w1, w2):
    """st: 0 running+open, 1 terminal closed but process alive, 2 exited.  Up to three future events at
    times now+e1 <= now+e2 <= now+e3: write, then (k2) write/close, then (k3) close/exit."""
    if not (0 <= r0 <= w0 <= w1 <= w2 and 0 <= e1 <= e2 <= e3):
        raise Skip()
    ev = [(now + e1, 'w', w1), (now + e2, 'w' if k2 == 0 else 'c', w2), (now + e3, 'c' if k3 == 0 else 'x', 0)]
    if st == 2:
        ev = []
    return TimedWorld(now, w0, r0, st >= 1, st == 2, ev)


def _judge_R(w, t_start, timeout, out, had_data):
    el = w.now - t_start
    if timeout is not None:
        lim = timeout if timeout > 0 else 0
        if el > lim:
            return 0                       # took longer than the timeout
        if out == 'timeout' and el < lim:
            return 0                       # TIMEOUT before the time was up
    elif out == 'timeout':
        return 0
    if out == 'timeout' and had_data:
        return 0                           # immediately readable data must be delivered, even with timeout 0
    return {'data': 2, 'timeout': 3, 'eof': 4}[out]


_B_PARAMS = dict(now=Int(0, 50), w0=Int(0, 2), r0=Int(0, 2), st=Int(0, 2), e1=Int(0), e2=Int(0), e3=Int(0),
                 k2=Int(0, 1), k3=Int(0, 1), w1=Int(0, 3), w2=Int(0, 3), size=Int(1, 2), T=Int(1), tmode=Int(0, 3),
                 poll=Bool())


@obligation(params=_B_PARAMS, tags={2: 'data', 3: 'TIMEOUT', 4: 'EOF'}, timeout=600, split=('tmode', 'st'),
            findings={-1: 'pty read blocks in waitpid when the child closed its terminal but is still running'},
            note='B: spawn.read_nonblocking over the real ptyprocess.isalive; event times and T unbounded integers')
def B_pty(now, w0, r0, st, e1, e2, e3, k2, k3, w1, w2, size, T, tmode, poll):
    try:
        w = _mk_world(now, w0, r0, pick(st, 0, 2), e1, e2, e3, k2, k3, w1, w2)
    except Skip:
        return SKIP
    timeout = [None, 0, T, -1][pick(tmode, 0, 3)]
    eff = [None, 0, T, T][tmode]
    pt = PP.PtyProcess.__new__(PP.PtyProcess)
    pt.pid, pt.fd, pt.terminated, pt.closed = 4242, 7, False, False
    pt.exitstatus = pt.signalstatus = pt.status = None
    pt.flag_eof = False
    sp = PS.spawn(None)
    sp.timeout = T
    sp.ptyproc, sp.pid, sp.child_fd, sp.closed, sp.terminated = pt, 4242, 7, False, False
    sp.use_poll = poll
    sel = lambda r, wl, x, t=None: ([7] if w.select(t) else [], [], [])
    pol = lambda fds, t=None: ([7] if w.select(t) else [])
    had = w0 > r0
    t_start = w.now
    with patched(SB, os=_OS(w)), patched(PP, os=w), \
            patched(PS, select_ignore_interrupts=sel, poll_ignore_interrupts=pol):
        try:
            sp.read_nonblocking(size, timeout)
            out = 'data'
        except TIMEOUT:
            out = 'timeout'
        except EOF:
            out = 'eof'
        except Skip:
            return SKIP
        except _Hang:
            return -1 if w.blocked_on_running_child else 0
        finally:
            pt.closed = True       # keep PtyProcess.__del__ from running close() later
    r = _judge_R(w, t_start, eff, out, had)
    if r == 0 and w.blocked_on_running_child:
        return -1
    return r


@obligation(params=_B_PARAMS, tags={2: 'data', 3: 'TIMEOUT', 4: 'EOF'}, timeout=400, split=('tmode',),
            note='B: fdspawn.read_nonblocking')
def B_fd(now, w0, r0, st, e1, e2, e3, k2, k3, w1, w2, size, T, tmode, poll):
    try:
        w = _mk_world(now, w0, r0, pick(st, 0, 2), e1, e2, e3, k2, k3, w1, w2)
    except Skip:
        return SKIP
    timeout = [None, 0, T, -1][pick(tmode, 0, 3)]
    eff = [None, 0, T, T][tmode]
    sp = FD.fdspawn.__new__(FD.fdspawn)
    SpawnBase.__init__(sp, timeout=T)
    sp.child_fd, sp.closed, sp.use_poll = 7, False, poll
    sel = lambda r, wl, x, t=None: ([7] if w.select(t) else [], [], [])
    pol = lambda fds, t=None: ([7] if w.select(t) else [])

    class _FOS(_OS):
        def read(self, fd, size):
            try:
                return self.w.read(size)
            except OSError:
                return b''
    had = w0 > r0
    t_start = w.now
    with patched(SB, os=_FOS(w)), patched(FD, select_ignore_interrupts=sel, poll_ignore_interrupts=pol):
        try:
            sp.read_nonblocking(size, timeout)
            out = 'data'
        except TIMEOUT:
            out = 'timeout'
        except EOF:
            out = 'eof'
        except Skip:
            return SKIP
    return _judge_R(w, t_start, eff, out, had)


class _TSocket:
    def __init__(self, w):
        self.w, self.t = w, None

    def fileno(self):
        return 7

    def gettimeout(self):
        return self.t

    def settimeout(self, t):
        self.t = t

    def recv(self, size):
        if not self.w.select(self.t):
            if self.t == 0:
                raise BlockingIOError(11, 'would block')
            raise _socket.timeout('timed out')
        try:
            return self.w.read(size)
        except OSError:
            return b''


@obligation(params=dict(_B_PARAMS, own=OptInt(0, 1000)), tags={2: 'data', 3: 'TIMEOUT', 4: 'EOF'}, timeout=400,
            split=('tmode',),
            note='B: SocketSpawn.read_nonblocking; own: the timeout the socket object carries before the call (None = '
                 'blocking, 0 = non-blocking, any number) must play no role (added after a seeded change that skipped '
                 'settimeout(None) was missed: the socket stub always started in blocking mode)')
def B_socket(now, w0, r0, st, e1, e2, e3, k2, k3, w1, w2, size, T, tmode, poll, own=None):
    try:
        w = _mk_world(now, w0, r0, pick(st, 0, 2), e1, e2, e3, k2, k3, w1, w2)
    except Skip:
        return SKIP
    timeout = [None, 0, T, -1][pick(tmode, 0, 3)]
    eff = [None, 0, T, T][tmode]
    sock = _TSocket(w)
    sock.t = own
    sp = SK.SocketSpawn(sock, timeout=T)
    had = w0 > r0
    t_start = w.now
    try:
        sp.read_nonblocking(size, timeout)
        out = 'data'
    except TIMEOUT:
        out = 'timeout'
    except EOF:
        out = 'eof'
    except Skip:
        return SKIP
    if sock.t is not own and sock.t != own:
        return 0                           # the socket's own timeout was not put back
    return _judge_R(w, t_start, eff, out, had)


class _CostlyQueue:
    """every get_nowait costs a symbolic number of ticks; holds `n` one-byte chunks"""

    def __init__(self, clk, n, costs):
        self.clk, self.left, self.costs = clk, n, list(costs)
        self.polled_at = []

    def get_nowait(self):
        self.polled_at.append(self.clk.now)
        self.clk.now += self.costs.pop(0) if self.costs else 0
        if self.left <= 0:
            raise PO.Empty()
        self.left -= 1
        return b'x'


@obligation(params=dict(t0=Int(0), T=Int(0), tmode=Int(1, 3), n=Int(0, 3), c0=Int(0), c1=Int(0), c2=Int(0), c3=Int(0),
                        size=Int(1, 4)),
            tags={2: 'data', 3: 'nothing available'}, timeout=200, split=('tmode',),
            note='B: PopenSpawn.read_nonblocking never waits: it polls the queue at least once (even with timeout 0) '
                 'and stops polling once the timeout has elapsed; each poll costs a symbolic amount of time. '
                 'timeout=None is excluded here: it is implemented as the float 1e6 and the mixed int/float '
                 'comparison is not decided by the solver within the budget (probed: unknown after 200 s)')
def B_popen(t0, T, tmode, n, c0, c1, c2, c3, size):
    clk = Clock(t0)
    timeout = [None, 0, T, -1][pick(tmode, 0, 3)]
    eff = [None, 0, T, T][tmode]
    if eff is None and (c0 > 100 or c1 > 100 or c2 > 100 or c3 > 100):
        return SKIP                    # None is implemented as 1e6 s: keep the polling costs far below that
    sp = PO.PopenSpawn.__new__(PO.PopenSpawn)
    SpawnBase.__init__(sp, timeout=T)
    sp.closed = False
    sp._buf = b''
    q = _CostlyQueue(clk, n, [c0, c1, c2, c3])
    sp._read_queue = q
    with patched(PO, time=clk):
        try:
            d = sp.read_nonblocking(size, timeout)
        except (EOF, TIMEOUT):
            return 0
    if not q.polled_at:
        return 0                       # never looked at the queue
    if eff is not None:
        for at in q.polled_at[1:]:
            if at - t0 >= eff:
                return 0               # polled again although the time was up
    if n > 0 and len(d) == 0:
        return 0                       # immediately readable data not delivered
    if len(d) > size:
        return 0
    return 2 if len(d) else 3


# ------------------------------------------------------------------ C
class FakeSelectMod:
    """select/poll stand-in: the k-th wait is interrupted by a signal after ds[k] <= timeout ticks, or
    completes - ready after ds[k] <= timeout, or not ready after exactly the timeout."""
    POLLIN = POLLPRI = POLLHUP = POLLERR = 1
    error = OSError

    def __init__(self, clk, kinds, ds, other_err):
        self.clk, self.kinds, self.ds, self.other_err = clk, list(kinds), list(ds), other_err
        self.calls = []

    def _wait(self, timeout):
        self.calls.append((timeout, self.clk.now))
        if timeout is not None and timeout < 0:
            raise ValueError('timeout must be non-negative')
        k = self.kinds.pop(0) if self.kinds else 2
        d = self.ds.pop(0) if self.ds else 0
        if timeout is not None and d > timeout:
            d = timeout
        if k == 0:
            self.clk.now += d
            if self.other_err:
                raise InterruptedError(errno.EBADF, 'EBADF')
            raise InterruptedError(errno.EINTR, 'EINTR')
        if k == 1:
            self.clk.now += d
            return True
        if timeout is None:
            raise Skip()           # a wait forever that never becomes ready: legitimate hang
        self.clk.now += timeout
        return False

    def select(self, r, w, x, timeout=None):
        return (list(r), [], []) if self._wait(timeout) else ([], [], [])

    def poll(self):
        mod = self

        class P:
            def register(self, fd, mask):
                self.fd = fd

            def poll(self, ms=None):
                if ms is not None and ms % 1000 != 0:
                    raise AssertionError('stub: milliseconds not a whole tick')
                return [(self.fd, 1)] if mod._wait(None if ms is None else ms // 1000) else []
        return P()


@obligation(params=dict(t0=Int(0), T=OptInt(0), k0=Int(0, 2), k1=Int(0, 2), k2=Int(0, 2), d0=Int(0), d1=Int(0), d2=Int(0),
                        use_poll=Bool(), other=Bool()),
            tags={2: 'ready', 3: 'not ready after the full timeout', 4: 'other error passes through'}, timeout=200,
            note='C: EINTR handling: each retry waits only for the remaining time, total <= t, "not ready" only after t')
def C_interrupts(t0, T, k0, k1, k2, d0, d1, d2, use_poll, other):
    clk = Clock(t0)
    fs = FakeSelectMod(clk, [k0, k1, k2], [d0, d1, d2], other)
    with patched(U, select=fs, time=clk):
        try:
            if use_poll:
                r = U.poll_ignore_interrupts([7], T)
                ready = (r == [7])
            else:
                r = U.select_ignore_interrupts([7], [], [], T)
                ready = (r[0] == [7])
        except Skip:
            return SKIP
        except InterruptedError as e:
            return 4 if (other and e.args[0] == errno.EBADF) else 0
    el = clk.now - t0
    if T is not None:
        if el > T:
            return 0
        if not ready and el < T:
            return 0
        # every (re)try was given exactly the remaining time
        for tm, at in fs.calls:
            if tm != T - (at - t0):
                return 0
    if ready:
        return 2
    return 3


@obligation(params=dict(k=Int(0, 5), ready=Bool()), tags={2: 'ready', 3: 'timed out'}, timeout=100,
            note='C: seconds -> milliseconds conversion of poll_ignore_interrupts on fractional timeouts (six exactly '
                 'representable values; the integer-tick obligations cannot see sub-second truncation)')
def C2_poll_units(k, ready):
    T = [0.25, 0.5, 0.75, 1.5, 2.75, 3.125][pick(k, 0, 5)]
    seen = []

    class _Poller:
        def register(self, fd, mask):
            pass

        def poll(self, ms=None):
            seen.append(ms)
            return [(7, 1)] if ready else []

    class _Sel:
        POLLIN = POLLPRI = POLLHUP = POLLERR = 1

        @staticmethod
        def poll():
            return _Poller()
    with patched(U, select=_Sel, time=Clock(0)):
        r = U.poll_ignore_interrupts([7], T)
    if len(seen) != 1 or seen[0] != T * 1000:
        return 0
    if r != ([7] if ready else []):
        return 0
    return 2 if ready else 3


# ------------------------------------------------------------------ D
class _EchoPty:
    def __init__(self, off_at, clk):
        self.off_at, self.clk, self.n = off_at, clk, 0

    def getecho(self):
        self.n += 1
        return not (self.off_at is not None and self.clk.now >= self.off_at)


class _TickClock(Clock):
    def sleep(self, d):
        self.now += 1          # one poll interval (0.1 s) = one tick


@obligation(params=dict(t0=Int(0), T=Int(0), tmode=Int(0, 3), off=OptInt(0)),
            tags={2: 'echo off seen', 3: 'gave up after the timeout'}, timeout=200,
            note='D: waitnoecho: True as soon as echo is off, False only once the timeout has passed, -1 = instance '
                 'default, None waits; echo turns off at a symbolic time (or never)')
def D_waitnoecho(t0, T, tmode, off):
    clk = _TickClock(t0)
    tmode = pick(tmode, 0, 3)
    timeout = [None, 0, T, -1][tmode]
    eff = [None, 0, T, T][tmode]
    off_at = None if off is None else t0 + off
    if eff is None and off_at is None:
        return SKIP            # waits forever, as documented
    if (off is not None and off > 6) or (eff is not None and eff > 6 and off is None):
        return SKIP            # bound on loop iterations in this obligation
    sp = PS.spawn(None)
    sp.timeout = T
    sp.ptyproc = _EchoPty(off_at, clk)
    with patched(PS, time=clk):
        r = sp.waitnoecho(timeout)
    el = clk.now - t0
    if r is True:
        if off_at is None or clk.now < off_at:
            return 0
        if el > off + 1:
            return 0           # noticed no later than one poll after it happened
        return 2
    if r is not False or eff is None:
        return 0
    if el < eff:
        return 0               # gave up early
    if el > eff + 2:
        return 0
    if off_at is not None and off_at <= clk.now - 1 and off < eff:
        return 0               # echo had been off for a whole poll before the deadline, yet False
    return 3


@obligation(params=dict(s=Text(2, min=1), shape=Int(0, 6), tmode=Int(0, 3), entry=Int(0, 3), W=OptInt(1, 4), single=Int(0, 2)),
            tags={2: 'list form', 3: 'single pattern form', 4: 'single EOF/TIMEOUT'}, timeout=200,
            note='every entry point (expect, expect_exact, expect_list, expect_loop) hands the deadline loop the '
                 'resolved timeout: -1 means the instance default, None and 0 are passed through (the C04.O1_plumbing '
                 'obligation, part of this check too because the timeout conventions are this property\'s subject)')
def A2_entry_timeouts(s, shape, tmode, entry, W, single):
    from harness import C04
    return C04.O1_plumbing(s, shape, tmode, entry, W, single)


def dry_runs():
    yield 'A2_entry_timeouts', dict(s='ab', shape=1, tmode=3, entry=0, W=None, single=0)
    yield 'A2_entry_timeouts', dict(s='ab', shape=0, tmode=0, entry=3, W=2, single=1)
    for tmode in range(4):
        yield 'A_deadline', dict(t0=3, T=4, tmode=tmode, k0=0, k1=0, k2=2, d0=1, d1=1, d2=1, dar=1, pend=False)
        base = dict(now=1, w0=1, r0=0, st=0, e1=1, e2=2, e3=3, k2=0, k3=1, w1=2, w2=3, size=2, T=2, tmode=tmode, poll=False)
        yield 'B_pty', dict(base, w0=0)
        yield 'B_fd', base
        yield 'B_socket', base
    yield 'B_popen', dict(t0=0, T=2, tmode=2, n=2, c0=1, c1=1, c2=1, c3=1, size=3)
    yield 'C_interrupts', dict(t0=0, T=5, k0=0, k1=1, k2=2, d0=2, d1=1, d2=0, use_poll=False, other=False)
    yield 'C_interrupts', dict(t0=0, T=5, k0=0, k1=2, k2=2, d0=2, d1=1, d2=0, use_poll=True, other=False)
    yield 'D_waitnoecho', dict(t0=0, T=3, tmode=2, off=2)
    yield 'C2_poll_units', dict(k=1, ready=False)


PROBES = ['expect_core', 'transports', 'lifecycle']      # representation probes (harness/probes.py) this harness depends on


MANIFEST_ENTRY = {
    'level_text': 'Bounded symbolic verification on a virtual integer clock, all times unbounded integers: '
                  '(A) the overall deadline arithmetic of the real expect_loop against any transport obeying the '
                  'read contract; (B) the real read_nonblocking of pty (through the real ptyprocess.isalive), fd and '
                  'socket transports satisfy that contract for every timing of up to three peer events (write, '
                  'close terminal without exiting, exit); (C) EINTR handling in select/poll wrappers; (D) waitnoecho.',
    'level_note': 'Scheduler latency is 0 in the model; kernel and ptyprocess are stubs/executed under the stated '
                  'contract. Known finding C05/-1 (blocking waitpid in the dependency) is excluded by its region.',
}
