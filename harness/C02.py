"""C02 a reported match is genuine, leftmost, lowest-index on ties; after/match/match_index
/before all describe that occurrence; EOF/TIMEOUT entries keep their list position."""
from symx.spec import obligation, Text, Int, OptInt, Bool, SKIP
from harness.common import state_spawn, inv0, pending, AbsPat, LitPat, EndPat, Skip
from pexpect.expect import Expecter, searcher_string, searcher_re
from pexpect.exceptions import EOF, TIMEOUT

ENCODES = ['pexpect.expect.searcher_string.__init__', 'pexpect.expect.searcher_string.search',
           'pexpect.expect.searcher_re.__init__', 'pexpect.expect.searcher_re.search',
           'pexpect.expect.Expecter.do_search', 'pexpect.expect.Expecter.new_data']
STUBS = ['AbsPat: compiled pattern whose search(buf,pos) returns None or any span with pos<=start<=end<=len(buf)',
         'io.StringIO -> PyBuf']
ASSUMPTIONS = ['A2: re.search(buf,pos) returns the leftmost match at or after pos (so one span per pattern is '
               'that pattern\'s earliest occurrence in the searched region)',
               'exact search with W=None: precondition J (no occurrence lies wholly inside the previously searched '
               'text) - established inductively by C03',
               'window <= 6 chars, <= 3 text patterns of <= 2-3 chars; list shapes enumerated (6 arrangements)']

# arrangements of three text patterns t0,t1,t2 with the EOF/TIMEOUT markers interleaved
SHAPES = [
    ['t0', 't1', 't2'],
    [EOF, 't0', 't1', 't2'],
    ['t0', EOF, 't1', TIMEOUT, 't2'],
    [TIMEOUT, 't0', 't1', EOF, 't2'],
    ['t0', 't1', 't2', EOF, TIMEOUT],
    [TIMEOUT, EOF, 't0', 't1', 't2'],
]


def _build(shape, items):
    lst = []
    pos = []
    for e in SHAPES[shape]:
        if isinstance(e, str):
            pos.append(len(lst))
            lst.append(items[int(e[1])])
        else:
            lst.append(e)
    eof_i = SHAPES[shape].index(EOF) if EOF in SHAPES[shape] else -1
    to_i = SHAPES[shape].index(TIMEOUT) if TIMEOUT in SHAPES[shape] else -1
    return lst, pos, eof_i, to_i


@obligation(params=dict(win=Text(6), fresh=Int(0, 7), W=OptInt(1, 7), s0=Text(2, min=1), s1=Text(2, min=1),
                        s2=Text(3, min=1), shape=Int(0, 5)),
            tags={2: 'hit, unique leftmost', 3: 'miss', 4: 'tie at the same start: first listed wins'},
            timeout=400, split=('shape',),
            thorough=dict(params=dict(win=Text(8), fresh=Int(0, 9), W=OptInt(1, 9)), timeout=3000, split=('shape', 'W')),
            note='searcher_string.search: index is the list position, occurrence genuine, leftmost in the searched '
                 'region, first listed on ties')
def M1_exact_select(win, fresh, W, s0, s1, s2, shape):
    pats = [s0, s1, s2]
    lst, pos, eof_i, to_i = _build(shape, pats)
    sr = searcher_string(lst)
    if sr.eof_index != eof_i or sr.timeout_index != to_i:
        return 0
    n = len(win)
    if fresh > n:
        fresh = n              # do_search clamps freshlen the same way
    if W is None:
        # J: nothing lies wholly inside the already searched prefix
        old = win[:n - fresh]
        for s in pats:
            if old.find(s) >= 0:
                return SKIP
        lo = 0
    else:
        lo = n - W if n > W else 0
    region = win[lo:]
    r = sr.search(win, fresh, W)
    # reference: leftmost occurrence inside the region, lowest list position on ties
    best = None
    tie = False
    for k in range(3):
        m = region.find(pats[k])
        if m >= 0:
            if best is None or m < best[1]:
                best = (k, m)
            elif m == best[1]:
                tie = True
    if best is None:
        return 3 if r == -1 else 0
    if r != pos[best[0]]:
        return 0
    if sr.start != lo + best[1] or sr.end != sr.start + len(pats[best[0]]):
        return 0
    if not (win[sr.start:sr.end] == pats[best[0]]) or not (sr.match == pats[best[0]]):
        return 0
    # is there really a tie at the chosen start?
    first_tie = False
    for k in range(3):
        if k != best[0] and region.find(pats[k]) == best[1]:
            first_tie = True
    return 4 if first_tie else 2


@obligation(params=dict(n=Int(0, 12), W=OptInt(1, 13), shape=Int(0, 5),
                        h0=Bool(), a0=Int(), b0=Int(), h1=Bool(), a1=Int(), b1=Int(), h2=Bool(), a2=Int(), b2=Int()),
            tags={2: 'hit', 3: 'miss', 4: 'tie: first listed wins'}, timeout=300,
            note='searcher_re.search over three abstract compiled patterns: smallest start wins, ties to the first '
                 'listed, every pattern is searched from max(0, len-W), start/end/match are the winner\'s')
def M2_regex_select(n, W, shape, h0, a0, b0, h1, a1, b1, h2, a2, b2):
    from symx.bstr import mk
    win = mk(n, [120] * 12)      # contents never inspected by this code path
    ps = [AbsPat(h0, a0, b0, 'p0'), AbsPat(h1, a1, b1, 'p1'), AbsPat(h2, a2, b2, 'p2')]
    lst, pos, eof_i, to_i = _build(shape, ps)
    sr = searcher_re(lst)
    if sr.eof_index != eof_i or sr.timeout_index != to_i:
        return 0
    try:
        r = sr.search(win, 0, W)
    except Skip:
        return SKIP
    lo = 0 if W is None else (n - W if n > W else 0)
    for p in ps:
        if len(p.calls) != 1 or p.calls[0][1] != lo:
            return 0
    hits = [(p.a, k) for k, p in enumerate(ps) if p.hit]
    if not hits:
        return 3 if r == -1 else 0
    best = None
    for a, k in hits:
        if best is None or a < best[0]:
            best = (a, k)
    ties = [k for a, k in hits if a == best[0]]
    if r != pos[best[1]]:
        return 0
    w = ps[best[1]]
    if sr.start != w.a or sr.end != w.b or sr.match.re is not w or sr.match.start() != w.a:
        return 0
    return 4 if len(ties) > 1 else 2


@obligation(params=dict(P=Text(4), cut=Int(0, 4), D=Text(3), W=OptInt(1, 5), h0=Bool(), a0=Int(), b0=Int(),
                        h1=Bool(), a1=Int(), b1=Int(), shape=Int(0, 2)),
            tags={2: 'match copied', 3: 'miss'}, timeout=300,
            note='do_search copies the winner: after == matched text, match is its match object, match_index its list '
                 'position, before ends exactly where the occurrence starts')
def M3_copy(P, cut, D, W, h0, a0, b0, h1, a1, b1, shape):
    if cut > len(P):
        return SKIP
    sp = state_spawn(P, cut, W)
    ps = [AbsPat(h0, a0, b0, 'p0'), AbsPat(h1, a1, b1, 'p1')]
    lst = [[ps[0], ps[1]], [EOF, ps[0], TIMEOUT, ps[1]], [ps[0], EOF, ps[1]]][shape]
    pos = [[0, 1], [1, 3], [0, 2]][shape]
    sr = searcher_re(lst)
    ex = Expecter(sp, sr, -1)
    try:
        idx = ex.new_data(D)
    except Skip:
        return SKIP
    total = P + D
    if idx is None:
        return 0 if (h0 or h1) else 3
    if h0 and (not h1 or a0 <= a1):
        w, k = ps[0], 0
    else:
        w, k = ps[1], 1
    if idx != pos[k] or sp.match_index != idx:
        return 0
    if sp.match.re is not w:
        return 0
    window = w.calls[0][0]
    off = len(total) - len(window)
    if not (sp.after == window[w.a:w.b]) or not (sp.after == total[off + w.a:off + w.b]):
        return 0
    if not (sp.before == total[:off + w.a]) or not (sp.buffer == total[off + w.b:]):
        return 0
    return 2


def dry_runs():
    yield 'M1_exact_select', dict(win='xxabyy', fresh=4, W=None, s0='ab', s1='b', s2='yy', shape=2)
    yield 'M2_regex_select', dict(n=6, W=3, shape=3, h0=True, a0=4, b0=5, h1=True, a1=4, b1=6, h2=False, a2=0, b2=0)
    yield 'M3_copy', dict(P='ab', cut=0, D='cd', W=None, h0=True, a0=1, b0=3, h1=False, a1=0, b1=0, shape=1)


PROBES = ['expect_core']      # representation probes (harness/probes.py) this harness depends on


MANIFEST_ENTRY = {
    'level_text': 'Bounded symbolic verification of the real selection logic (searcher_string.search, '
                  'searcher_re.search, Expecter.do_search): for every window (<=6 chars, any code points), every '
                  'freshlen/W, three symbolic patterns in six list arrangements with EOF/TIMEOUT interleaved - or '
                  'three abstract compiled patterns returning arbitrary spans - the reported index is the list '
                  'position of a pattern that really occurs at the leftmost position of the searched region, '
                  'lowest index on ties, and after/match/match_index/before describe that occurrence.',
    'level_note': 'Assumes the CPython re contract (one leftmost span per pattern at or after pos) and, for the '
                  'incremental exact search with W=None, precondition J proved inductive in C03.',
}
