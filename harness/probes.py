"""Representation probes.

The inductive obligations inject pre-states through internal attributes (`_before`, `_buffer`,
`ptyproc`, `_read_queue`, `w`, `cur_r`, FSM `memory`, ...) and build objects without forking.  A
refactoring that renames or re-shapes those internals would make such a harness describe states the
code never has.  Each probe checks, concretely and through behaviour, that the internals a harness
relies on still mean what it assumes.  The runner evaluates the probe of a harness before it reports
any counterexample: if the probe fails, nothing is reported as VIOLATION (the run ends as
"harness does not fit this representation", exit 2) - a renamed attribute is never an alarm.
"""


def expect_core():
    import io
    from pexpect.spawnbase import SpawnBase
    from pexpect.expect import Expecter, searcher_string, searcher_re
    from pexpect.exceptions import EOF, TIMEOUT
    import re

    class Miss:
        eof_index = -1
        timeout_index = 0
        longest_string = 2

        def __init__(self):
            self.seen = []

        def search(self, window, freshlen, searchwindowsize=None):
            self.seen.append((window, freshlen, searchwindowsize))
            return -1
    sp = SpawnBase(encoding='utf-8')
    if not (sp.buffer_type is io.StringIO and isinstance(sp._before, io.StringIO) and isinstance(sp._buffer, io.StringIO)):
        return False
    sp._before.write('abcd')
    sp._buffer.write('cd')
    m = Miss()
    ex = Expecter(sp, m, -1)
    if ex.existing_data() is not None or m.seen[0][0] != 'abcd':
        return False                      # the window is rebuilt from the untrimmed copy `_before`
    if ex.new_data('ef') is not None or sp._before.getvalue() != 'abcdef' or not 'abcdef'.endswith(sp._buffer.getvalue()):
        return False
    if ex.timeout() != 0 or sp.before != 'abcdef' or sp.after is not TIMEOUT:
        return False
    if sp.buffer != sp._buffer.getvalue():
        return False
    ss = searcher_string(['ab', EOF, 'c', TIMEOUT])
    if ss._strings != [(0, 'ab'), (2, 'c')] or (ss.eof_index, ss.timeout_index, ss.longest_string) != (1, 3, 2):
        return False
    cp = re.compile('x')
    sr = searcher_re([TIMEOUT, cp, EOF])
    if sr._searches != [(1, cp)] or (sr.eof_index, sr.timeout_index) != (2, 0):
        return False
    if ss.search('zzab', 4) != 0 or (ss.start, ss.end, ss.match) != (2, 4, 'ab'):
        return False
    return True


def transports():
    import pexpect.pty_spawn as PS
    import pexpect.spawnbase as SB
    import pexpect.fdpexpect as FD
    import pexpect.popen_spawn as PO
    import pexpect.socket_pexpect as SK
    from pexpect.exceptions import EOF, TIMEOUT

    class _OS:
        linesep = '\n'
        name = 'posix'

        def __init__(self):
            self.w = []

        def read(self, fd, n):
            return b'xy'[:n]

        def write(self, fd, b):
            self.w.append((fd, b))
            return len(b)
    o = _OS()
    old = (SB.os, PS.os, FD.os)
    try:
        SB.os = PS.os = FD.os = o
        sp = PS.spawn(None)

        class _P:
            flag_eof = False

            def isalive(self):
                return True
        sp.ptyproc, sp.child_fd, sp.closed, sp.use_poll, sp.delaybeforesend = _P(), 7, False, False, None
        if SB.SpawnBase.read_nonblocking(sp, 2) != b'xy':
            return False
        if sp.send(b'q') != 1 or o.w[-1] != (7, b'q'):
            return False
        sp.flag_eof = True
        if sp.ptyproc.flag_eof is not True:
            return False
        f = FD.fdspawn.__new__(FD.fdspawn)
        SB.SpawnBase.__init__(f)
        f.child_fd, f.closed, f.use_poll = 7, False, False
        if f.send(b'z') != 1 or o.w[-1] != (7, b'z'):
            return False
    finally:
        SB.os, PS.os, FD.os = old
    p = PO.PopenSpawn.__new__(PO.PopenSpawn)
    SB.SpawnBase.__init__(p, timeout=1)

    class _Q:
        def __init__(self):
            self.items = [b'abc', None]

        def get_nowait(self):
            if not self.items:
                raise PO.Empty()
            return self.items.pop(0)
    p.closed, p._buf, p._read_queue = False, b'', _Q()
    if p.read_nonblocking(2, 1) != b'ab' or p._buf != b'c' or p._read_reached_eof:
        return False
    if p.read_nonblocking(2, 1) != b'c' or not p._read_reached_eof:
        return False

    class _S:
        t = None

        def fileno(self):
            return 7

        def gettimeout(self):
            return self.t

        def settimeout(self, t):
            self.t = t

        def recv(self, n):
            return b'k'
    s = SK.SocketSpawn(_S(), timeout=1)
    if s.read_nonblocking(1, 1) != b'k' or s.socket.t is not None:
        return False
    u = SB.SpawnBase(encoding='utf-8')
    if not hasattr(u, '_decoder') or not hasattr(u, '_encoder') or u._decoder.decode(b'a', final=False) != 'a':
        return False
    for name in ('logfile', 'logfile_read', 'logfile_send', 'timeout', 'maxread', 'delayafterread'):
        if not hasattr(u, name):
            return False
    return True


def lifecycle():
    import inspect
    import ptyprocess.ptyprocess as PP
    import pexpect.pty_spawn as PS
    src = inspect.getsource(PP.PtyProcess)
    for name in ('self.pid', 'self.fd', 'self.terminated', 'self.closed', 'self.exitstatus', 'self.signalstatus',
                 'self.status', 'self.flag_eof', 'self.fileobj', 'self.delayafterclose', 'self.delayafterterminate'):
        if name not in src:
            return False
    sp = PS.spawn(None)
    for name in ('terminated', 'exitstatus', 'signalstatus', 'status', 'child_fd', 'closed', 'pid',
                 'delayafterclose', 'delayafterterminate', 'delaybeforesend'):
        if not hasattr(sp, name):
            return False
    return transports()


def screen():
    import pexpect.screen as S
    import pexpect.ANSI as A
    s = S.screen(2, 3)
    if [list(r) for r in s.w] != [[' '] * 3, [' '] * 3]:
        return False
    if (s.cur_r, s.cur_c, s.cur_saved_r, s.cur_saved_c, s.scroll_row_start, s.scroll_row_end, s.rows, s.cols) != (1, 1, 1, 1, 1, 2, 2, 3):
        return False
    s.cur_r, s.cur_c = 2, 3
    s.put('X')
    if s.w[1][2] != 'X' or s.get_abs(2, 3) != 'X':
        return False
    t = A.ANSI(2, 3)
    if t.state.current_state != 'INIT' or t.state.memory != [t]:
        return False
    t.write('\x1b[2')
    if t.state.current_state != 'NUMBER_1' or t.state.memory[1:] != ['2']:
        return False
    t.write(';3H')
    if (t.cur_r, t.cur_c) != (2, 3) or t.state.current_state != 'INIT' or t.state.memory != [t]:
        return False
    return True


def run_probe(fn):
    try:
        return bool(fn())
    except Exception:
        return False
