"""Representation probes.

The inductive obligations inject pre-states through internal attributes (`_before`, `_buffer`,
`ptyproc`, `_read_queue`, `w`, `cur_r`, FSM `memory`, ...) and build objects without forking.  A
refactoring that renames or re-shapes those internals would make such a harness describe states the
code never has.  Each probe checks that the internals a harness relies on still EXIST under the
names and shapes it assumes.  The runner evaluates the probes of a harness before it reports any
counterexample: if one fails, nothing is reported as VIOLATION (the run ends as "harness does not
fit this representation", exit 2) - a renamed attribute is never an alarm.

The probes are deliberately structural (names, types, which attribute a property reads): they must
not depend on the code *behaving correctly*, otherwise a real defect would fail the probe and hide
its own counterexample (an earlier, behavioural version of these probes did exactly that for two
seeded changes).
"""


def _names(fn):
    code = getattr(fn, '__code__', None)
    if code is None and isinstance(fn, property):
        code = fn.fget.__code__
    out = set(code.co_names) | set(code.co_varnames)
    for c in code.co_consts:
        if hasattr(c, 'co_names'):
            out |= set(c.co_names)
    return out


def expect_core():
    import io
    from pexpect.spawnbase import SpawnBase
    import pexpect.expect as E
    sp = SpawnBase(encoding='utf-8')
    for name in ('_before', '_buffer', 'buffer_type', 'before', 'after', 'match', 'match_index', 'searchwindowsize',
                 'maxread', 'delayafterread', 'flag_eof'):
        if not hasattr(sp, name):
            return False
    if sp.buffer_type is not io.StringIO or type(sp._before) is not io.StringIO or type(sp._buffer) is not io.StringIO:
        return False
    if SpawnBase(encoding=None).buffer_type is not io.BytesIO:
        return False
    sp._buffer.write('q')
    if sp.buffer != 'q':                      # the public `buffer` reads `_buffer`
        return False
    for meth in ('existing_data', 'new_data', 'do_search', 'eof', 'timeout', 'errored', 'expect_loop'):
        if not callable(getattr(E.Expecter, meth, None)):
            return False
    if not {'_before', '_buffer'} <= _names(E.Expecter.new_data) | _names(E.Expecter.existing_data):
        return False
    if '_before' not in _names(E.Expecter.eof) or '_before' not in _names(E.Expecter.do_search):
        return False
    ex = E.Expecter(sp, type('S', (), {'longest_string': 3})(), 5)
    if (ex.searchwindowsize, ex.lookback, ex.spawn) != (5, 3, sp):
        return False
    ss = E.searcher_string(['ab', E.EOF])
    if not (isinstance(ss._strings, list) and ss._strings and tuple(ss._strings[0]) == (0, 'ab')):
        return False
    for name in ('eof_index', 'timeout_index', 'longest_string'):
        if not isinstance(getattr(ss, name, None), int):
            return False
    sr = E.searcher_re([E.TIMEOUT])
    if not isinstance(sr._searches, list) or not isinstance(sr.timeout_index, int):
        return False
    return True


def transports():
    import pexpect.pty_spawn as PS
    import pexpect.spawnbase as SB
    import pexpect.fdpexpect as FD
    import pexpect.popen_spawn as PO
    import pexpect.socket_pexpect as SK
    need = [
        (PS.spawn.read_nonblocking, {'closed', 'use_poll', 'child_fd', 'isalive', 'flag_eof', 'timeout'}),
        (PS.spawn.isalive, {'ptyproc'}),
        (PS.spawn.send, {'_encoder', 'child_fd', '_log', 'delaybeforesend'}),
        (SB.SpawnBase.read_nonblocking, {'child_fd', '_decoder', '_log', 'flag_eof'}),
        (SB.SpawnBase._log, {'logfile', 'logfile_read', 'logfile_send'}),
        (FD.fdspawn.read_nonblocking, {'child_fd', 'use_poll', 'timeout'}),
        (FD.fdspawn.send, {'_encoder', 'child_fd', '_log'}),
        (PO.PopenSpawn.read_nonblocking, {'_buf', '_read_queue', '_read_reached_eof', '_decoder', '_log', 'flag_eof'}),
        (PO.PopenSpawn.send, {'proc', '_encoder', '_log'}),
        (PO.PopenSpawn._read_incoming, {'proc', '_read_queue'}),
        (SK.SocketSpawn.read_nonblocking, {'socket', '_timeout', 'flag_eof', 'timeout'}),
        (SK.SocketSpawn.send, {'socket', '_encoder', '_log'}),
    ]
    for fn, names in need:
        if not names <= _names(fn):
            return False
    if not isinstance(PS.spawn.__dict__.get('flag_eof'), property):
        return False
    for mod, names in ((SB, {'os'}), (PS, {'os', 'time', 'select_ignore_interrupts', 'poll_ignore_interrupts', 'tty'}),
                       (FD, {'os', 'select_ignore_interrupts', 'poll_ignore_interrupts'}), (PO, {'os', 'time', 'Empty'})):
        for n in names:
            if not hasattr(mod, n):
                return False
    return True


def lifecycle():
    import inspect
    import ptyprocess.ptyprocess as PP
    import pexpect.pty_spawn as PS
    src = inspect.getsource(PP.PtyProcess)
    for name in ('self.pid', 'self.fd', 'self.terminated', 'self.closed', 'self.exitstatus', 'self.signalstatus',
                 'self.status', 'self.flag_eof', 'self.fileobj', 'self.delayafterclose', 'self.delayafterterminate'):
        if name not in src:
            return False
    sp = PS.spawn(None)
    for name in ('terminated', 'exitstatus', 'signalstatus', 'status', 'child_fd', 'closed', 'pid',
                 'delayafterclose', 'delayafterterminate', 'delaybeforesend'):
        if not hasattr(sp, name):
            return False
    for fn, names in ((PS.spawn.close, {'ptyproc', 'child_fd', 'closed'}), (PS.spawn.wait, {'ptyproc'}),
                      (PS.spawn.kill, {'pid'}), (PS.spawn.terminate, {'kill', 'isalive', 'delayafterterminate'})):
        if not names <= _names(fn):
            return False
    return transports()


def screen():
    import pexpect.screen as S
    import pexpect.ANSI as A
    s = S.screen(2, 3)
    if not (isinstance(s.w, list) and len(s.w) == 2 and all(isinstance(r, list) and len(r) == 3 for r in s.w)):
        return False
    for name in ('cur_r', 'cur_c', 'cur_saved_r', 'cur_saved_c', 'scroll_row_start', 'scroll_row_end', 'rows', 'cols'):
        if not isinstance(getattr(s, name, None), int):
            return False
    t = A.ANSI(2, 3)
    st = getattr(t, 'state', None)
    if st is None or not hasattr(st, 'current_state') or not isinstance(getattr(st, 'memory', None), list):
        return False
    if st.current_state != 'INIT' or not st.memory or st.memory[0] is not t:
        return False
    if not isinstance(getattr(st, 'state_transitions', None), dict):
        return False
    return True


def run_probe(fn):
    try:
        return bool(fn())
    except Exception:
        return False
