"""C06 transport fidelity: all peer output delivered once, in order, before EOF; no read
returns more than `size`; a socket's own timeout is left as found.

Form: ONE read_nonblocking call from an ARBITRARY world state (bytes written so far,
bytes read so far, peer already gone or not, remaining peer actions at symbolic positions
among this call's system calls).  Step relation:
  * the call returns the next contiguous, non-empty, <= size piece of the stream; or
  * TIMEOUT with nothing consumed; or
  * EOF only if nothing is unread and the peer can write no more.
The relation composes to whole-stream conservation for any number of calls.
"""
from symx.spec import obligation, Int, OptInt, Bool, SKIP
from harness.common import Skip, patched, pick
from harness.world import PeerWorld, FakeOS, FakePty, STREAM
from pexpect.exceptions import EOF, TIMEOUT
import pexpect.pty_spawn as PS
import pexpect.spawnbase as SB
import pexpect.fdpexpect as FD
import pexpect.popen_spawn as PO
import pexpect.socket_pexpect as SK
import socket as _socket

USES_BSTR = False
ENCODES = ['pexpect.pty_spawn.spawn.read_nonblocking', 'pexpect.spawnbase.SpawnBase.read_nonblocking',
           'pexpect.fdpexpect.fdspawn.read_nonblocking', 'pexpect.popen_spawn.PopenSpawn.read_nonblocking',
           'pexpect.popen_spawn.PopenSpawn._read_incoming',
           'pexpect.socket_pexpect.SocketSpawn.read_nonblocking']
STUBS = ['PeerWorld: kernel buffer + peer script (<=3 actions at symbolic positions among the reader\'s system calls); '
         'select ready iff data unread or peer gone; read returns 1..min(size,avail) bytes, EIO/b"" iff empty and '
         'gone; a timed wait is one extra scheduling point',
         'FakePty.isalive: true until the peer has exited', 'FakeSocket: recv under settimeout(t) -> data | b"" | '
         'socket.timeout | BlockingIOError (t==0) | ConnectionResetError; records settimeout calls',
         'FakeQueue: FIFO; the reader thread may have moved more chunks between any two get_nowait calls']
ASSUMPTIONS = ['A4: kernel/pty/ptyprocess behave as PeerWorld says (pty: data written before exit stays readable, '
               'EIO only once drained)', 'stream <= 6 bytes, size in 1..3, <= 3 peer actions per call',
               'timeout None with a peer that never acts again is a legitimate infinite wait (excluded)']
OUTSIDE = ['real kernel buffer sizes (hundreds of KB)', 'grandchildren holding the pty open']


def _world(w0, r0, gone, t1, t2, t3, w1, w2, pty):
    if not (r0 <= w0 <= w1 <= w2 and t1 <= t2 <= t3):
        raise Skip()
    return PeerWorld(w0, r0, gone, [(t1, 'w', w1), (t2, 'w', w2), (t3, 'x', 0)], pty=pty)


def _judge(w, r0, size, outcome, data):
    """the step relation; returns a tag or 0"""
    if outcome == 'data':
        n = len(data)
        if n < 1 or n > size:
            return 0
        if data != STREAM[r0:r0 + n] or w.rd != r0 + n:
            return 0
        return 2
    if outcome == 'timeout':
        if w.rd != r0:
            return 0
        return 3
    # EOF: everything the peer ever wrote (including what it may still write) has been returned
    w.flush()
    if w.rd != r0 or w.written != w.rd or not w.gone:
        return 0
    return 4


_PTY_PARAMS = dict(w0=Int(0, 2), r0=Int(0, 2), gone=Bool(), t1=Int(0, 7), t2=Int(0, 7), t3=Int(0, 7),
                   w1=Int(0, 3), w2=Int(0, 3), size=Int(1, 2), tmo=Int(0, 3), poll=Bool())


@obligation(params=_PTY_PARAMS, tags={2: 'data', 3: 'TIMEOUT', 4: 'EOF', 5: 'data after the peer died (re-poll)'},
            timeout=900, split=('tmo', 'gone', 'poll'),
            thorough=dict(params=dict(w0=Int(0, 3), r0=Int(0, 3), t1=Int(0, 9), t2=Int(0, 9), t3=Int(0, 9),
                                      w1=Int(0, 6), w2=Int(0, 6), size=Int(1, 3)), timeout=3000,
                          split=('tmo', 'gone', 'poll', 'size')),
            note='pty child: spawn.read_nonblocking, select and poll flavours; tmo 0 -> timeout 0, 1 -> 1, '
                 '2 -> -1 (instance default), 3 -> None')
def T1_pty(w0, r0, gone, t1, t2, t3, w1, w2, size, tmo, poll):
    try:
        w = _world(w0, r0, gone, t1, t2, t3, w1, w2, True)
    except Skip:
        return SKIP
    timeout = [0, 1, -1, None][pick(tmo, 0, 3)]
    sp = PS.spawn(None)
    sp.timeout = 1
    sp.ptyproc = FakePty(w)
    sp.child_fd = 7
    sp.closed = False
    sp.use_poll = poll
    sel = lambda r, wl, x, t=None: ([7] if w.select(t) else [], [], [])
    pol = lambda fds, t=None: ([7] if w.select(t) else [])
    died_before = w.gone
    with patched(SB, os=FakeOS(w)), patched(PS, select_ignore_interrupts=sel, poll_ignore_interrupts=pol):
        try:
            d = sp.read_nonblocking(size, timeout)
            out = 'data'
        except TIMEOUT:
            d, out = None, 'timeout'
        except EOF:
            d, out = None, 'eof'
        except Skip:
            return SKIP
    tag = _judge(w, r0, size, out, d)
    if tag == 4 and not sp.flag_eof:
        return 0
    if tag == 2 and w.gone and not died_before:
        return 5
    return tag


@obligation(params=dict(w0=Int(0, 2), r0=Int(0, 2), gone=Bool(), t1=Int(0, 4), t2=Int(0, 4), t3=Int(0, 4),
                        w1=Int(0, 4), w2=Int(0, 4), size=Int(1, 2), tmo=Int(0, 3), poll=Bool()),
            tags={2: 'data', 3: 'TIMEOUT', 4: 'EOF'}, timeout=600, split=('tmo', 'gone', 'poll'),
            thorough=dict(params=dict(w0=Int(0, 3), r0=Int(0, 3), w1=Int(0, 6), w2=Int(0, 6), size=Int(1, 3)),
                          timeout=2000),
            note='raw file descriptor: fdspawn.read_nonblocking (readiness wait then one read; peer close = empty read)')
def T2_fd(w0, r0, gone, t1, t2, t3, w1, w2, size, tmo, poll):
    try:
        w = _world(w0, r0, gone, t1, t2, t3, w1, w2, False)
    except Skip:
        return SKIP
    timeout = [0, 1, -1, None][pick(tmo, 0, 3)]
    sp = FD.fdspawn.__new__(FD.fdspawn)
    SB.SpawnBase.__init__(sp, timeout=1)
    sp.child_fd = 7
    sp.closed = False
    sp.use_poll = poll
    sel = lambda r, wl, x, t=None: ([7] if w.select(t) else [], [], [])
    pol = lambda fds, t=None: ([7] if w.select(t) else [])
    with patched(SB, os=FakeOS(w)), patched(FD, select_ignore_interrupts=sel, poll_ignore_interrupts=pol):
        try:
            d = sp.read_nonblocking(size, timeout)
            out = 'data'
        except TIMEOUT:
            d, out = None, 'timeout'
        except EOF:
            d, out = None, 'eof'
        except Skip:
            return SKIP
    tag = _judge(w, r0, size, out, d)
    if tag == 4 and not sp.flag_eof:
        return 0
    return tag


class FakeSocket:
    """recv() under the timeout in force: data if available, b'' if the peer closed, else waits:
    t None -> blocks until the peer acts; t == 0 -> BlockingIOError; t > 0 -> socket.timeout unless
    the peer acts during the wait.  `fail` makes recv raise ConnectionResetError."""

    def __init__(self, w, t_found, fail):
        self.w, self.t, self.fail = w, t_found, fail
        self.sets = []

    def fileno(self):
        return 7

    def gettimeout(self):
        return self.t

    def settimeout(self, t):
        self.sets.append(t)
        self.t = t

    def recv(self, size):
        w = self.w
        if self.fail:
            raise ConnectionResetError(104, 'reset')
        if not w.select(self.t):
            if self.t == 0:
                raise BlockingIOError(11, 'would block')
            raise _socket.timeout('timed out')
        return w.read(size)


@obligation(params=dict(w0=Int(0, 2), r0=Int(0, 2), gone=Bool(), t1=Int(0, 4), t2=Int(0, 4), t3=Int(0, 4),
                        w1=Int(0, 4), w2=Int(0, 4), size=Int(1, 2), tmo=Int(0, 3), found=OptInt(0, 9), fail=Bool()),
            tags={2: 'data', 3: 'TIMEOUT', 4: 'EOF', 6: 'other socket error passes through'}, timeout=600,
            split=('tmo', 'gone', 'fail'),
            thorough=dict(params=dict(w0=Int(0, 3), r0=Int(0, 3), w1=Int(0, 6), w2=Int(0, 6), size=Int(1, 3)),
                          timeout=2000),
            note='socket: SocketSpawn.read_nonblocking; the socket timeout found before the call (None or any '
                 'number) is in force again afterwards on every exit path')
def T3_socket(w0, r0, gone, t1, t2, t3, w1, w2, size, tmo, found, fail):
    try:
        w = _world(w0, r0, gone, t1, t2, t3, w1, w2, False)
    except Skip:
        return SKIP
    timeout = [0, 1, -1, None][pick(tmo, 0, 3)]
    sk = FakeSocket(w, found, fail)
    sp = SK.SocketSpawn(sk, timeout=1)
    try:
        d = sp.read_nonblocking(size, timeout)
        out = 'data'
    except TIMEOUT:
        d, out = None, 'timeout'
    except EOF:
        d, out = None, 'eof'
    except Skip:
        return SKIP
    except ConnectionResetError:
        if not fail or sk.t != found or w.rd != r0:
            return 0
        return 6
    if sk.t != found:
        return 0          # the socket's own timeout was not restored
    want = 1 if timeout == -1 else timeout
    if not sk.sets or sk.sets[0] != want:
        return 0
    tag = _judge(w, r0, size, out, d)
    if tag == 4 and not sp.flag_eof:
        return 0
    return tag


class FakeQueue:
    """FIFO filled by the reader thread.  Items not yet moved by the thread become visible at
    symbolic positions among the consumer's get_nowait calls."""

    def __init__(self, items, arrive):
        self.items = list(items)
        self.arrive = list(arrive)     # arrive[k]: number of get_nowait calls before item k is there
        self.n = 0
        self.k = 0

    def get_nowait(self):
        self.n += 1
        if self.k < len(self.items) and self.arrive[self.k] < self.n:
            it = self.items[self.k]
            self.k += 1
            return it
        raise PO.Empty()


class _Clock:
    def __init__(self):
        self.now = 0

    def time(self):
        return self.now


@obligation(params=dict(carry=Int(0, 2), c1=Int(1, 2), c2=Int(1, 2), nitems=Int(0, 3), a1=Int(0, 3), a2=Int(0, 3),
                        a3=Int(0, 3), size=Int(1, 3), tmo=Int(0, 3), ateof=Bool()),
            tags={2: 'data', 3: 'nothing yet (empty piece)', 4: 'EOF', 5: 'carry-over served'}, timeout=400,
            split=('tmo', 'nitems'),
            thorough=dict(params=dict(carry=Int(0, 3), c1=Int(1, 3), c2=Int(1, 3), a1=Int(0, 4), a2=Int(0, 4),
                                      a3=Int(0, 4), size=Int(1, 4)), timeout=2000),
            note='piped subprocess: PopenSpawn.read_nonblocking from any state (carry-over buffer, EOF already '
                 'reached or not, 0-2 chunks + sentinel arriving at symbolic points); invariant '
                 '_read_reached_eof => carry-over empty is preserved')
def T4_popen(carry, c1, c2, nitems, a1, a2, a3, size, tmo, ateof):
    if not (a1 <= a2 <= a3):
        return SKIP
    nitems = pick(nitems, 0, 3)
    timeout = [0, 1, -1, None][pick(tmo, 0, 3)]
    base = 0
    buf0 = STREAM[base:base + carry]
    if ateof:
        if carry:
            return SKIP        # invariant: EOF reached => nothing carried over
        items = []
    else:
        chunks = [STREAM[carry:carry + c1], STREAM[carry + c1:carry + c1 + c2], None]
        items = ([chunks[0], chunks[1], None])[:nitems] if nitems < 3 else chunks
        if nitems == 1:
            items = [chunks[0]]
        elif nitems == 2:
            items = [chunks[0], chunks[1]]
    sp = PO.PopenSpawn.__new__(PO.PopenSpawn)
    SB.SpawnBase.__init__(sp, timeout=1)
    sp.closed = False
    sp._buf = buf0
    sp._read_queue = FakeQueue(items, [a1, a2, a3])
    sp._read_reached_eof = ateof
    clk = _Clock()
    with patched(PO, time=clk):
        try:
            d = sp.read_nonblocking(size, timeout)
            out = 'data'
        except EOF:
            d, out = None, 'eof'
        except TIMEOUT:
            return 0           # this transport never raises TIMEOUT itself
    q = sp._read_queue
    got_chunks = b''.join(x for x in items[:q.k] if x is not None)
    avail = buf0 + got_chunks
    if out == 'eof':
        if not (ateof or (q.k == len(items) and items and items[-1] is None)):
            return 0
        if len(avail) != 0 or len(sp._buf) != 0 or not sp._read_reached_eof or not sp.flag_eof:
            return 0
        return 4
    if len(d) > size or d != avail[:len(d)]:
        return 0
    if d + sp._buf != avail:
        return 0           # something lost or reordered between the piece and the carry-over
    if len(d) < size and len(sp._buf) != 0:
        return 0           # short piece although more was at hand
    if sp._read_reached_eof and len(sp._buf) != 0:
        return 0           # invariant
    if timeout == 0 and nitems > 0 and a1 == 0 and carry == 0 and len(d) == 0:
        return 0           # timeout 0 must still deliver what is immediately readable
    if len(d) == 0:
        return 3
    return 5 if carry and q.k == 0 else 2


class _PipeOS:
    def __init__(self, chunks, fail_at):
        self.chunks, self.fail_at, self.n = list(chunks), fail_at, 0

    def read(self, fd, n):
        k = self.n
        self.n += 1
        if k == self.fail_at:
            raise OSError(5, 'EIO')
        if k < len(self.chunks):
            return self.chunks[k]
        return b''


class _RecQ:
    def __init__(self):
        self.items = []

    def put(self, x):
        self.items.append(x)


@obligation(params=dict(n=Int(0, 3), fail_at=Int(-1, 3)), tags={2: 'clean end', 3: 'read error ends the stream'},
            timeout=120,
            note='PopenSpawn._read_incoming run to completion on a scripted pipe: chunks are queued in order, the None '
                 'sentinel exactly once and last')
def T5_reader_thread(n, fail_at):
    n = pick(n, 0, 3)
    chunks = [STREAM[2 * i:2 * i + 2] for i in range(n)]
    sp = PO.PopenSpawn.__new__(PO.PopenSpawn)
    SB.SpawnBase.__init__(sp)

    class _Out:
        def fileno(self):
            return 5

    class _Proc:
        stdout = _Out()
    sp.proc = _Proc()
    sp._read_queue = _RecQ()
    logged = []
    sp._log = lambda s, d: logged.append(s)
    pos = _PipeOS(chunks, fail_at)
    with patched(PO, os=pos):
        sp._read_incoming()
    items = sp._read_queue.items
    if not items or items[-1] is not None or items.count(None) != 1:
        return 0
    upto = n if (fail_at < 0 or fail_at >= n) else fail_at
    if items[:-1] != chunks[:upto]:
        return 0
    return 3 if 0 <= fail_at <= n else 2


def dry_runs():
    base = dict(w0=1, r0=0, gone=False, t1=1, t2=2, t3=3, w1=2, w2=3, size=2)
    for tmo in range(4):
        yield 'T1_pty', dict(base, tmo=tmo, poll=False)
        yield 'T1_pty', dict(base, w0=0, tmo=tmo, poll=True)
        yield 'T2_fd', dict(base, tmo=tmo, poll=False)
        yield 'T3_socket', dict(base, tmo=tmo, found=3, fail=False)
        yield 'T4_popen', dict(carry=1, c1=1, c2=2, nitems=3, a1=0, a2=0, a3=0, size=2, tmo=tmo, ateof=False)
    yield 'T5_reader_thread', dict(n=2, fail_at=-1)
    yield 'T5_reader_thread', dict(n=2, fail_at=1)


PROBES = ['transports']      # representation probes (harness/probes.py) this harness depends on


MANIFEST_ENTRY = {
    'level_text': 'Bounded symbolic verification of the real read_nonblocking of every transport (pty select/poll, '
                  'raw fd, socket, piped subprocess) as ONE call from an arbitrary world state: bytes written/read '
                  'so far, peer gone or not, up to three further peer actions (write, write, exit) placed at '
                  'symbolic positions among the call\'s own system calls, size 1..3, timeout 0/positive/-1/None. '
                  'Step relation (next contiguous piece <= size | TIMEOUT consuming nothing | EOF only when '
                  'everything was delivered) composes to whole-stream fidelity for any number of calls; socket '
                  'timeout restoration on every exit path; PopenSpawn reader thread and carry-over invariant.',
    'level_note': 'The kernel/pty/ptyprocess are stubs under the stated contract (A4); stream <= 6 bytes per step; '
                  'real buffer sizes and real scheduling are outside the claim.',
}
