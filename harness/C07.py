"""C07 unicode mode decodes the stream as a whole, however reads split it.

D1  On every read path (SpawnBase/fd, pty incl. its two-reads-in-one-call branch, piped
    subprocess with carry-over, socket, asyncio protocol) every byte read from the transport is
    fed exactly once, in order, to THE one incremental decoder of the object with final=False,
    and what is returned / logged / appended to the buffers is exactly the concatenation of what
    the decoder returned (the decoder is an uninterpreted recording stub).
D2  The object is wired to one incremental decoder of the requested codec and error policy;
    in bytes mode bytes pass through unchanged.
D3  With CPython's real codecs: concrete multi-byte streams (UTF-8 2/3/4-byte, UTF-16, latin-1;
    strict/replace/ignore) cut at symbolic positions into three reads decode to the same text as
    decoding the whole stream (cut positions are enumerated through the solver).
"""
import codecs

from symx.spec import obligation, Int, OptInt, Bool, SKIP
from symx.bstr import tracing
from harness.common import Skip, patched, pick, ScriptedSpawn
from harness.world import PeerWorld, FakeOS, FakePty, STREAM
from harness.io_stubs import FakeDecoder, RecFile, Events
from pexpect.exceptions import EOF, TIMEOUT
from pexpect.expect import Expecter, searcher_string
import pexpect.pty_spawn as PS
import pexpect.spawnbase as SB
import pexpect.fdpexpect as FD
import pexpect.popen_spawn as PO
import pexpect.socket_pexpect as SK
import pexpect._async_w_await as AW

USES_BSTR = False
ENCODES = ['pexpect.spawnbase.SpawnBase.read_nonblocking', 'pexpect.pty_spawn.spawn.read_nonblocking',
           'pexpect.fdpexpect.fdspawn.read_nonblocking', 'pexpect.popen_spawn.PopenSpawn.read_nonblocking',
           'pexpect.socket_pexpect.SocketSpawn.read_nonblocking', 'pexpect._async_w_await.PatternWaiter.data_received',
           'pexpect.spawnbase.SpawnBase.__init__']
STUBS = ['FakeDecoder: uninterpreted stateful incremental decoder (k-th call returns a distinct token as long as its input), records (chunk, final)',
         'PeerWorld / FakeSocket / FakeQueue as in C06', 'D3: CPython\'s real incremental decoders, objects built outside tracing']
ASSUMPTIONS = ['A1: CPython incremental decoders are split-invariant (checked on the D3 corpus, not proved)',
               'streams that do not end inside a character']


def _check(dec, chunks_expected, returned, log_events):
    """all bytes fed once, in order, final=False; returned == concatenation of decoder outputs; logged the same"""
    fed = b''.join(c for c, f in dec.calls)
    if fed != chunks_expected:
        return False
    for c, f in dec.calls:
        if f is not False:
            return False
    want = dec.all_out()
    if returned != want:
        return False
    logged = ''.join(v for n, op, v in log_events if op == 'write')
    if logged != want:
        return False
    return True


@obligation(params=dict(w0=Int(0, 3), r0=Int(0, 2), gone=Bool(), t1=Int(0, 4), w1=Int(0, 4), size=Int(1, 3), tr=Int(0, 2),
                        tmo=Int(0, 1), hold=Int(0, 2)),
            tags={2: 'one os.read', 3: 'two reads joined in one call (pty)', 4: 'nothing read'}, timeout=600,
            split=('tr', 'hold'),
            thorough=dict(params=dict(w0=Int(0, 4), r0=Int(0, 3), t1=Int(0, 6), w1=Int(0, 5)), timeout=2000),
            note='D1 for SpawnBase/fdspawn/pty read_nonblocking over the peer world (tr: 0 fd, 1 pty select, 2 pty poll)')
def D1_fd_pty(w0, r0, gone, t1, w1, size, tr, tmo, hold=0):
    if not (r0 <= w0 <= w1):
        return SKIP
    tr = pick(tr, 0, 2)
    w = PeerWorld(w0, r0, gone, [(t1, 'w', w1), (t1 + 2, 'x', 0)], pty=(tr != 0))
    ev = Events()
    dec = FakeDecoder(holds=[pick(hold, 0, 2), 0, 0])
    if tr == 0:
        sp = FD.fdspawn.__new__(FD.fdspawn)
        SB.SpawnBase.__init__(sp, timeout=1, encoding='utf-8')
        sp.child_fd, sp.closed, sp.use_poll = 7, False, False
    else:
        sp = PS.spawn(None, encoding='utf-8')
        sp.timeout = 1
        sp.ptyproc, sp.child_fd, sp.closed, sp.use_poll = FakePty(w), 7, False, tr == 2
    sp._decoder = dec
    sp.logfile_read = RecFile('r', ev)
    sel = lambda r, wl, x, t=None: ([7] if w.select(t) else [], [], [])
    pol = lambda fds, t=None: ([7] if w.select(t) else [])
    got = ''
    with patched(SB, os=FakeOS(w)), patched(FD, select_ignore_interrupts=sel, poll_ignore_interrupts=pol), \
            patched(PS, select_ignore_interrupts=sel, poll_ignore_interrupts=pol):
        try:
            got = sp.read_nonblocking(size, tmo)
        except (EOF, TIMEOUT):
            got = ''
        except Skip:
            return SKIP
    if not _check(dec, STREAM[r0:w.rd], got, ev.ev):
        return 0
    if len(dec.calls) == 0:
        return 4
    return 3 if len(dec.calls) > 1 else 2


class _SendPty(FakePty):
    """FakePty that also accepts the control-character calls (each writes one byte and reports it)"""
    sent = None

    def sendcontrol(self, char):
        self.sent = (self.sent or []) + [b'\x07']
        return 1, b'\x07'

    def sendeof(self):
        self.sent = (self.sent or []) + [b'\x04']
        return 1, b'\x04'

    def sendintr(self):
        self.sent = (self.sent or []) + [b'\x03']
        return 1, b'\x03'


@obligation(params=dict(w0=Int(0, 2), r0=Int(0, 1), w1=Int(0, 3), size=Int(1, 2), op=Int(0, 4), hold=Int(0, 1), ls=Bool(),
                        lf=Bool()),
            tags={2: 'send', 3: 'sendline', 4: 'sendcontrol', 5: 'sendeof', 6: 'sendintr'}, timeout=600, split=('op', 'ls'),
            thorough=dict(params=dict(w0=Int(0, 3), r0=Int(0, 2), w1=Int(0, 4), size=Int(1, 3), hold=Int(0, 2), poll=Bool()),
                          timeout=2000, split=('op', 'ls', 'lf')),
            note='D4: a send-family call between two reads of a pty in unicode mode, while the decoder may be holding '
                 'an unfinished character, with send logs on or off: the one incremental decoder sees the received '
                 'bytes only - once, in order (added after a seeded change that pushed sent control bytes through '
                 'the read-side decoder was missed)')
def D4_send_between_reads(w0, r0, w1, size, op, hold, ls, lf, poll=False):
    if not (r0 <= w0 <= w1):
        return SKIP
    op = pick(op, 0, 4)
    w = PeerWorld(w0, r0, False, [(1, 'w', w1)], pty=True)
    ev, sev = Events(), Events()
    dec = FakeDecoder(holds=[pick(hold, 0, 2), 0, 0, 0])
    sp = PS.spawn(None, encoding='utf-8')
    sp.timeout = 1
    sp.delaybeforesend = None
    pty_ = _SendPty(w)
    sp.ptyproc, sp.child_fd, sp.closed, sp.use_poll = pty_, 7, False, poll
    sp._decoder = dec
    sp.logfile_read = RecFile('r', ev)
    if ls:
        sp.logfile_send = RecFile('s', sev)
    if lf:
        sp.logfile = RecFile('all', sev)
    sel = lambda r, wl, x, t=None: ([7] if w.select(t) else [], [], [])
    pol = lambda fds, t=None: ([7] if w.select(t) else [])
    written = []

    class _OS(FakeOS):
        def write(self, fd, b):
            written.append(b)
            return len(b)
    got = ''
    os_ = _OS(w)
    with patched(SB, os=os_), patched(PS, os=os_, select_ignore_interrupts=sel, poll_ignore_interrupts=pol):
        for step in range(3):
            if step == 1:
                if op == 0:
                    sp.send('q')
                elif op == 1:
                    sp.sendline('q')
                elif op == 2:
                    sp.sendcontrol('g')
                elif op == 3:
                    sp.sendeof()
                else:
                    sp.sendintr()
                continue
            try:
                got = got + sp.read_nonblocking(size, 0)
            except (EOF, TIMEOUT):
                pass
            except Skip:
                return SKIP
    read_events = [e for e in ev.ev if e[0] == 'r']
    if lf:
        read_events = read_events      # the common log also gets the reads; they are checked through the read log
    if not _check(dec, STREAM[r0:w.rd], got, read_events):
        return 0
    return 2 + op


class _Q:
    def __init__(self, items):
        self.items = list(items)

    def get_nowait(self):
        if not self.items:
            raise PO.Empty()
        return self.items.pop(0)


@obligation(params=dict(n=Int(0, 3), c1=Int(1, 2), c2=Int(1, 2), c3=Int(1, 2), size=Int(1, 4), carry=Int(0, 2)),
            tags={2: 'chunks decoded', 3: 'served from the carry-over only'}, timeout=300,
            note='D1 for PopenSpawn.read_nonblocking: every queued chunk goes through the decoder once; the carry-over '
                 '(already decoded text) is not decoded again')
def D1_popen(n, c1, c2, c3, size, carry):
    n = pick(n, 0, 3)
    c1, c2, c3, size, carry = pick(c1, 1, 2), pick(c2, 1, 2), pick(c3, 1, 2), pick(size, 1, 4), pick(carry, 0, 2)
    sizes = [c1, c2, c3][:n]
    chunks = []
    off = 0
    for s in sizes:
        chunks.append(STREAM[off:off + s])
        off += s
    sp = PO.PopenSpawn.__new__(PO.PopenSpawn)
    SB.SpawnBase.__init__(sp, timeout=1, encoding='utf-8')
    sp.closed = False
    dec = FakeDecoder()
    sp._decoder = dec
    ev = Events()
    sp.logfile_read = RecFile('r', ev)
    pre = 'PREV'[:carry]
    sp._buf = pre
    sp._read_queue = _Q(chunks)
    from harness.common import Clock
    with patched(PO, time=Clock(0)):
        got = sp.read_nonblocking(size, 1)
    k = len(dec.calls)
    fed = b''.join(c for c, f in dec.calls)
    if fed != b''.join(chunks[:k]):
        return 0
    for c, f in dec.calls:
        if f is not False:
            return 0
    allout = pre + dec.all_out()
    if got != allout[:size] or sp._buf != allout[size:]:
        return 0
    logged = ''.join(v for nm, op, v in ev.ev if op == 'write')
    if logged != got:
        return 0
    return 2 if k else 3


class _Sock:
    def __init__(self, data):
        self.data, self.t = data, None

    def fileno(self):
        return 7

    def gettimeout(self):
        return self.t

    def settimeout(self, t):
        self.t = t

    def recv(self, n):
        r, self.data = self.data[:n], self.data[n:]
        return r


@obligation(params=dict(n=Int(1, 4), size=Int(1, 4), uni=Bool(), hold=Int(0, 4)),
            tags={2: 'unicode mode', 3: 'bytes mode', 4: 'the chunk holds no complete character: empty text, not EOF'}, timeout=200,
            note='D1 for SocketSpawn.read_nonblocking: what recv() gave goes through the decoder and the read log; '
                 'bytes mode returns the bytes unchanged')
def D1_socket(n, size, uni, hold=0):
    data = STREAM[:pick(n, 1, 4)]
    sp = SK.SocketSpawn(_Sock(data), timeout=1, encoding='utf-8' if uni else None)
    ev = Events()
    sp.logfile_read = RecFile('r', ev)
    if uni:
        dec = FakeDecoder(holds=[pick(hold, 0, 4)])
        sp._decoder = dec
        got = sp.read_nonblocking(size, 1)      # an EOF/TIMEOUT here would be a violation: the peer is connected
        if not _check(dec, data[:size], got, ev.ev):
            return 0
        return 4 if len(got) == 0 else 2
    got = sp.read_nonblocking(size, 1)
    if got != data[:size]:
        return 0
    if [v for nm, op, v in ev.ev if op == 'write'] != [got]:
        return 0
    return 3


class _Fut:
    def __init__(self, done):
        self._d = done

    def done(self):
        return self._d

    def set_result(self, r):
        self._d = True
        self.res = r

    def set_exception(self, e):
        self._d = True


class _Tr:
    def pause_reading(self):
        pass


@obligation(params=dict(n=Int(1, 3), done=Bool()), tags={2: 'call outstanding', 3: 'no call outstanding'}, timeout=200,
            note='D1 for the asyncio protocol: data_received feeds the one decoder (final=False) and logs/appends exactly '
                 'its output, whether or not an expect call is outstanding')
def D1_async(n, done):
    sp = ScriptedSpawn([], kind='t')
    if tracing():
        import io
        sp.buffer_type = io.StringIO
        sp._before, sp._buffer = io.StringIO(), io.StringIO()
    dec = FakeDecoder()
    sp._decoder = dec
    ev = Events()
    sp.logfile_read = RecFile('r', ev)
    pw = AW.PatternWaiter()
    pw.transport = _Tr()
    pw.expecter = Expecter(sp, searcher_string(['never']), -1)
    pw.fut = _Fut(done)
    n = pick(n, 1, 3)
    chunks = [STREAM[0:2], STREAM[2:3], STREAM[3:6]][:n]
    for c in chunks:
        pw.data_received(c)
    want = dec.all_out()
    if not _check(dec, b''.join(chunks), want, ev.ev):
        return 0
    if sp._before.getvalue() != want or not want.endswith(sp._buffer.getvalue()) or not sp._buffer.getvalue():
        return 0
    return 3 if done else 2


@obligation(params=dict(enc=Int(0, 3), err=Int(0, 2), cls=Int(0, 4)), tags={2: 'unicode mode', 3: 'bytes mode'}, timeout=200,
            note='D2 wiring: each class creates ONE incremental decoder of the requested codec and error policy and '
                 'uses text buffers; without an encoding bytes pass through unchanged')
def D2_wiring(enc, err, cls):
    enc = [None, 'utf-8', 'utf-16', 'latin-1'][pick(enc, 0, 3)]
    err = ['strict', 'replace', 'ignore'][pick(err, 0, 2)]
    cls = pick(cls, 0, 4)
    made = []
    real = codecs.getincrementaldecoder

    class _C:
        @staticmethod
        def getincrementaldecoder(e):
            def f(errors='strict'):
                d = FakeDecoder()
                d.enc, d.errors = e, errors
                made.append(d)
                return d
            return f

        @staticmethod
        def getincrementalencoder(e):
            return lambda errors='strict': ('ENC', e, errors)
    with patched(SB, codecs=_C):
        if cls == 0:
            sp = SB.SpawnBase(encoding=enc, codec_errors=err)
        elif cls == 1:
            sp = PS.spawn(None, encoding=enc, codec_errors=err)
        elif cls == 2:
            sp = SK.SocketSpawn(_Sock(b''), encoding=enc, codec_errors=err)
        elif cls == 4:
            # PopenSpawn: no process, no reader thread - only the constructor's wiring is exercised
            class _Sub:
                PIPE, STDOUT = -1, -2

                @staticmethod
                def Popen(cmd, **kw):
                    return type('P', (), {'pid': 77})()

            class _Thr:
                @staticmethod
                def Thread(target=None):
                    return type('T', (), {'daemon': False, 'start': lambda self: None})()
            with patched(PO, subprocess=_Sub, threading=_Thr):
                sp = PO.PopenSpawn(['prog'], encoding=enc, codec_errors=err)
            if sp._buf != ('' if enc else b''):
                return 0
        else:
            with patched(FD, os=type('o', (), {'fstat': staticmethod(lambda fd: None)})):
                sp = FD.fdspawn(7, encoding=enc, codec_errors=err)
    if enc is None:
        if made or sp._decoder.decode(b'\xff\x00', final=False) != b'\xff\x00' or sp.string_type is not bytes:
            return 0
        if sp._before.getvalue() != b'':
            return 0
        return 3
    if len(made) != 1 or sp._decoder is not made[0] or made[0].enc != enc or made[0].errors != err:
        return 0
    if sp.string_type is not str or sp._before.getvalue() != '':
        return 0
    return 2


CORPUS = [
    ('utf-8', 'é€\U0001d11e!'), ('utf-8', 'añ€\U0001f600z'), ('utf-16', 'hé€\U0001d11e'), ('latin-1', 'caf\xe9'),
    ('utf-8', None),         # invalid bytes under replace/ignore
]


class _PieceSock:
    """recv() hands out the scripted pieces one by one (whatever size was asked for)"""

    def __init__(self, pieces):
        self.pieces, self.t = list(pieces), None

    def fileno(self):
        return 7

    def gettimeout(self):
        return self.t

    def settimeout(self, t):
        self.t = t

    def recv(self, n):
        return self.pieces.pop(0) if self.pieces else b''


class _SliceOS:
    def __init__(self, pieces):
        self.pieces = list(pieces)

    def read(self, fd, n):
        if not self.pieces:
            return b''
        return self.pieces.pop(0)


@obligation(params=dict(k=Int(0, 4), c1=Int(0, 16), c2=Int(0, 16), err=Int(0, 2), tr=Int(0, 2)),
            tags={2: 'cut inside a multi-byte character', 3: 'cuts at character boundaries'}, timeout=600, split=('k', 'tr'),
            note='D3: CPython\'s real incremental decoders through SpawnBase.read_nonblocking: three reads at symbolic '
                 'cut positions give decode(whole stream); enumerated through the solver')
def D3_real_codecs(k, c1, c2, err, tr=0):
    k = pick(k, 0, 4)
    enc, text = CORPUS[k]
    err = ['strict', 'replace', 'ignore'][pick(err, 0, 2)]
    if text is None:
        if err == 'strict':
            return SKIP
        data = b'ok\xff\xe2\x82z\xc3'      # stray bytes and a truncated sequence in the middle
        data = data + b'\xa9'
    else:
        data = text.encode(enc)
    n = len(data)
    if not (c1 <= c2 <= n):
        return SKIP
    c1 = pick(c1, 0, n)
    c2 = pick(c2, c1, n)
    pieces = [p for p in (data[:c1], data[c1:c2], data[c2:]) if p]
    tr = pick(tr, 0, 2)

    def build():
        if tr == 0:
            o = SB.SpawnBase(encoding=enc, codec_errors=err)
            o.child_fd = 7
        elif tr == 1:
            o = SK.SocketSpawn(_PieceSock(pieces), encoding=enc, codec_errors=err, timeout=1)
        else:
            o = PO.PopenSpawn.__new__(PO.PopenSpawn)
            SB.SpawnBase.__init__(o, encoding=enc, codec_errors=err, timeout=1)
            o.closed = False
            o._buf = ''
            o._read_queue = _Q(pieces)
        return o
    if tracing():
        from crosshair.tracers import NoTracing
        with NoTracing():
            sp = build()
    else:
        sp = build()
    out = ''
    from harness.common import Clock
    with patched(SB, os=_SliceOS(pieces)), patched(PO, time=Clock(0)):
        for _ in pieces:
            out = out + sp.read_nonblocking(100, 0 if tr != 1 else 1)
    want = data.decode(enc, err)
    if out != want:
        return 0
    inside = False
    if text is not None:
        bounds = {len(text[:i].encode(enc)) for i in range(len(text) + 1)} | {0}
        for c in (c1, c2):
            if 0 < c < n and c not in bounds:
                inside = True
    return 2 if inside else 3


def dry_runs():
    for k in range(5):
        for err in range(3):
            for tr in range(3):
                yield 'D3_real_codecs', dict(k=k, c1=1, c2=3, err=err, tr=tr)
    yield 'D1_popen', dict(n=2, c1=1, c2=2, c3=1, size=3, carry=1)
    yield 'D1_socket', dict(n=3, size=2, uni=True)
    yield 'D1_async', dict(n=2, done=False)
    for tr in range(3):
        yield 'D1_fd_pty', dict(w0=3, r0=0, gone=False, t1=0, w1=3, size=2, tr=tr, tmo=0)
    for op in range(5):
        yield 'D4_send_between_reads', dict(w0=2, r0=0, w1=3, size=2, op=op, hold=1, ls=True, lf=True)
    for cls in range(5):
        yield 'D2_wiring', dict(enc=1, err=1, cls=cls)
        yield 'D2_wiring', dict(enc=0, err=0, cls=cls)


PROBES = ['transports', 'expect_core']      # representation probes (harness/probes.py) this harness depends on


MANIFEST_ENTRY = {
    'level_text': 'Bounded symbolic verification that every read path of the real code (fd, pty incl. the joined '
                  'double read, piped subprocess with carry-over, socket, asyncio protocol) feeds each byte exactly once, '
                  'in order, with final=False to the single incremental decoder of the object and returns/logs/buffers '
                  'exactly the decoder\'s output (uninterpreted recording decoder, peer world with symbolic write/read '
                  'positions); constructor wiring per class/codec/error policy; plus CPython\'s real decoders on a '
                  'multi-byte corpus cut at symbolic positions.',
    'level_note': 'Split-invariance of CPython\'s incremental decoders themselves (A1) is assumed, exercised only on the '
                  'D3 corpus.',
}
