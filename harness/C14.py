"""C14 asyncio parity: async_=True gives the same answers as the blocking call.

The real expect_async / PatternWaiter are driven by hand over a fake event loop: the harness
plays the loop and delivers data_received / eof_received / connection_lost(EIO) / a wait_for
timeout at symbolic points relative to the awaits - before the first await, while a call is
outstanding (one or several chunks in one turn), between two calls (no call outstanding), EOF
together with the last data.  A twin object makes the same two calls through the blocking
path over a scripted transport carrying the same stream.  Index or exception, before, after,
match and pending text must agree after each call.
"""
import errno
import io

from symx.spec import obligation, Int, OptInt, Bool, SKIP
from symx.bstr import tracing
from harness.common import Skip, patched, pick, Clock
from pexpect.exceptions import EOF, TIMEOUT
from pexpect.spawnbase import SpawnBase
import pexpect.expect as E
import pexpect._async_w_await as AW

USES_BSTR = False
ENCODES = ['pexpect._async_w_await.expect_async', 'pexpect._async_w_await.PatternWaiter.data_received',
           'pexpect._async_w_await.PatternWaiter.eof_received', 'pexpect._async_w_await.PatternWaiter.connection_lost',
           'pexpect._async_w_await.PatternWaiter.found', 'pexpect._async_w_await.PatternWaiter.error',
           'pexpect._async_w_await.PatternWaiter.set_expecter', 'pexpect.spawnbase.SpawnBase.expect_exact',
           'pexpect.expect.Expecter.existing_data', 'pexpect.expect.Expecter.new_data', 'pexpect.expect.Expecter.timeout',
           'pexpect.expect.Expecter.eof']
STUBS = ['asyncio inside pexpect._async_w_await: Future, wait_for (an awaitable that hands control to the harness), '
         'TimeoutError, Protocol; _loop_getter: a loop whose connect_read_pipe attaches the protocol to a recording transport',
         'blocking twin: scripted read_nonblocking delivering the same chunks', 'buffers: real io objects created outside tracing']
ASSUMPTIONS = ['the transport hands data/EOF to the protocol between two calls only if it was left reading (a paused transport reads nothing); within a call the harness also delivers chunks after the future resolved (superset of the wait_for cancellation window)',
               'chunks the loop delivers while no call is outstanding count as pending text of the next call (the blocking twin gets them as pending text too)',
               'stream text concrete, delivery schedule symbolic (cut positions and delivery points enumerated through the solver)',
               'one text pattern plus EOF and TIMEOUT in the list (with several text patterns the result legitimately '
               'depends on chunking, as the documentation says)', '<= 3 chunks, 2 calls']

S = b'xxabyyabzz'


class Fut:
    def __init__(self):
        self._d, self.res, self.exc = False, None, None

    def done(self):
        return self._d

    def set_result(self, r):
        self._d, self.res = True, r

    def set_exception(self, e):
        self._d, self.exc = True, e


class Wait:
    def __init__(self, fut, timeout):
        self.fut, self.timeout = fut, timeout

    def __await__(self):
        cmd = yield self                 # the harness resumes us with 'go' or 'timeout'
        if cmd == 'timeout':
            raise FakeAsyncio.TimeoutError()
        if self.fut.exc is not None:
            raise self.fut.exc
        return self.fut.res


class Transport:
    def __init__(self):
        self.paused = False
        self.log = []

    def pause_reading(self):
        self.paused = True
        self.log.append('pause')

    def resume_reading(self):
        self.paused = False
        self.log.append('resume')


class Loop:
    def __init__(self):
        self.tr = Transport()
        self.connected = 0

    async def connect_read_pipe(self, factory, pipe):
        self.connected += 1
        pw = factory()
        pw.connection_made(self.tr)
        return self.tr, pw


class FakeAsyncio:
    Future = Fut

    class TimeoutError(Exception):
        pass
    Protocol = object
    waits = []

    @staticmethod
    def wait_for(fut, timeout):
        w = Wait(fut, timeout)
        FakeAsyncio.waits.append(w)
        return w


def _real_buffer():
    if tracing():
        from crosshair.tracers import NoTracing
        with NoTracing():
            return io.BytesIO()
    return io.BytesIO()


class Sp(SpawnBase):
    def __init__(self, script=(), **kw):
        SpawnBase.__init__(self, **kw)
        self.buffer_type = _real_buffer
        self._before, self._buffer = _real_buffer(), _real_buffer()
        self.script = list(script)
        self.delayafterread = None

    def read_nonblocking(self, size=1, timeout=None):
        if not self.script:
            raise EOF('eof') if self.flag_eof else TIMEOUT('quiet')
        ev = self.script.pop(0)
        if ev[0] == 'data':
            return ev[1]
        if ev[0] == 'eof':
            self.flag_eof = True
            raise EOF('eof')
        raise TIMEOUT('quiet')


def _state(sp, r, exc):
    return (r, type(exc).__name__ if exc is not None else None, sp.before, sp.after, sp.match, sp.match_index,
            sp._before.getvalue())


def _sync_call(sp, W, tmo, pats):
    try:
        return sp.expect_exact(pats, timeout=tmo, searchwindowsize=W if W else -1), None
    except (EOF, TIMEOUT) as e:
        return None, e


def _async_call(sp, loop, W, tmo, deliveries, end, pats):
    """one awaited call; deliveries: chunks handed to data_received while the call is outstanding;
    end: None | 'eof' | 'eio' | 'timeout' | 'closed' (the pipe was closed earlier: nothing more will ever be
    delivered) - what happens if the future is still pending after them"""
    coro = sp.expect_exact(pats, timeout=tmo, searchwindowsize=W if W else -1, async_=True)
    try:
        w = coro.send(None)              # runs existing_data, (connect|resume), then awaits wait_for
    except StopIteration as si:
        return si.value, None, None
    pw = sp.async_pw_transport[0]
    for d in deliveries:
        pw.data_received(d)              # delivered even if the future is already done (between awaits)
    if not pw.fut.done():
        if end == 'eof':
            pw.eof_received()
        elif end == 'eio':
            pw.connection_lost(OSError(errno.EIO, 'eio'))
        elif end == 'eof+lost':
            # pipes and sockets: asyncio reports a zero-length read as eof_received() and then, in the same turn of
            # the loop, connection_lost(None)
            pw.eof_received()
            pw.connection_lost(None)
    try:
        coro.send('go' if pw.fut.done() else 'timeout')
    except StopIteration as si:
        return si.value, None, w
    except (EOF, TIMEOUT) as e:
        return None, e, w
    raise AssertionError('coroutine did not finish')


@obligation(params=dict(k1=Int(0, 10), k2=Int(10, 10), d1=Int(0, 3), end=Int(0, 3), W=Int(0, 3), early=Int(0, 2), tmode=Int(0, 2),
                        listed=Bool()),
            tags={2: 'both calls matched', 3: 'second call ended in EOF', 4: 'second call timed out', 5: 'data arrived while no call was outstanding',
                  6: 'EOF/TIMEOUT raised as exceptions (not listed)'},
            timeout=900, split=('end', 'W'),
            thorough=dict(params=dict(k2=Int(0, 10)), timeout=3000, split=('end', 'W', 'listed', 'early')),
            note='two awaited calls vs two blocking calls on the same stream: k1<=k2 cut the stream into three chunks; '
                 'early chunks arrive before the first await (pending), d1 chunks during the first call, the rest during the second; '
                 'end: EOF / EIO connection loss / timeout / EOF followed by a clean connection_lost(None) (pipes, sockets); W search window (0 = none)')
def P1_parity(k1, k2, d1, end, W, early, tmode, listed=True):
    pats = [b'ab', EOF, TIMEOUT] if listed else [b'ab']
    n = len(S)
    if not (k1 <= k2 <= n):
        return SKIP
    k1 = pick(k1, 0, n)
    k2 = pick(k2, k1, n)
    chunks = [c for c in (S[:k1], S[k1:k2], S[k2:]) if c]
    early, d1 = pick(early, 0, 2), pick(d1, 0, 3)
    if early > len(chunks):
        return SKIP
    pre, rest = chunks[:early], chunks[early:]
    if d1 > len(rest):
        return SKIP
    first, second = rest[:d1], rest[d1:]
    endk = ['eof', 'eio', 'timeout', 'eof+lost'][pick(end, 0, 3)]
    tmo = [5, -1, None][pick(tmode, 0, 2)]
    if tmo is None and endk == 'timeout':
        return SKIP
    W = pick(W, 0, 3)
    loop = Loop()
    FakeAsyncio.waits = []
    clk = Clock(0)
    with patched(AW, asyncio=FakeAsyncio, _loop_getter=(lambda: loop)), patched(E, time=clk):
        # ---- awaited object
        a = Sp(timeout=7)
        for c in pre:                      # output that arrived before anybody asked
            a._before.write(c)
            a._buffer.write(c)
        r1, e1, w1 = _async_call(a, loop, W, tmo, first, None, pats)
        st_a1 = _state(a, r1, e1)
        idle = (r1 == 0 and len(first) > 0)
        if w1 is None:
            second = first + second        # call 1 answered from pending text without awaiting: nothing was delivered yet
        # the event loop keeps running while no call is outstanding: a transport that is still reading hands
        # whatever the child does next - the remaining output and its exit - to the protocol right away; a paused
        # transport reads nothing until the next call resumes it
        if w1 is not None and not loop.tr.paused and a.async_pw_transport:
            pw = a.async_pw_transport[0]
            for d in second:
                pw.data_received(d)
            second = []
            if endk == 'eof':
                pw.eof_received()
                endk_a = 'closed'
            elif endk == 'eof+lost':
                pw.eof_received()
                pw.connection_lost(None)
                endk_a = 'closed'
            elif endk == 'eio':
                pw.connection_lost(OSError(errno.EIO, 'eio'))
                endk_a = 'closed'
            else:
                endk_a = endk
        else:
            endk_a = endk
        r2, e2, w2 = _async_call(a, loop, W, tmo, second, endk_a, pats)
        st_a2 = _state(a, r2, e2)
        # ---- blocking twin
        second = rest[d1:] if w1 is not None else rest
        b = Sp(script=[('data', c) for c in rest] + [('eof',) if endk != 'timeout' else ('timeout',)], timeout=7)
        for c in pre:
            b._before.write(c)
            b._buffer.write(c)
        # the blocking first call may only see what had arrived by the end of the awaited first call
        b.script = [('data', c) for c in first] + [('timeout',)]
        rb1, eb1 = _sync_call(b, W, tmo if tmo is not None else 5, pats)
        st_b1 = _state(b, rb1, eb1)
        leftover = [ev for ev in b.script if ev[0] == 'data']      # arrived during call 1, not read by it
        if w1 is None:
            leftover = []                  # (already moved into `second` above)
        # what the loop delivered after the first match is pending text when the second call starts (with a
        # search window the outcome legitimately depends on whether text is pending or arrives in a later read)
        for ev in leftover:
            b._before.write(ev[1])
            b._buffer.write(ev[1])
        b.script = [('data', c) for c in second] + [('eof',) if endk != 'timeout' else ('timeout',)]
        b.flag_eof = False
        rb2, eb2 = _sync_call(b, W, tmo if tmo is not None else 5, pats)
        st_b2 = _state(b, rb2, eb2)
    # first call: the awaited call timed out exactly when the blocking one did
    if st_a1[0] != st_b1[0] or st_a1[2:6] != st_b1[2:6]:
        return 0
    # pending text may differ only by data that arrived after the awaited match (it is appended, never lost)
    # pending text: the awaited object has already buffered what the loop delivered after the match; the
    # blocking object still has those chunks unread in its transport - same stream, nothing lost or duplicated
    unread = b''.join(ev[1] for ev in b.script if ev[0] == 'data')
    undelivered = b''.join(second) if w2 is None else b''     # call 2 returned from pending text without awaiting
    if st_a2[:6] != st_b2[:6] or st_a2[6] + undelivered != st_b2[6] + unread:
        return 0
    # wait_for got the resolved timeout
    for w in (w1, w2):
        if w is not None and w.timeout != (7 if tmo == -1 else tmo):
            return 0
    if loop.connected > 1:
        return 0
    if e2 is not None:
        return 6
    if r2 == 0 and r1 == 0:
        return 5 if idle and len(first) > 1 else 2
    if r2 == 1:
        return 3
    if r2 == 2:
        return 4
    return 5 if idle else 2


def dry_runs():
    for end in range(4):
        for W in range(4):
            yield 'P1_parity', dict(k1=3, k2=6, d1=1, end=end, W=W, early=1, tmode=0)
            yield 'P1_parity', dict(k1=4, k2=8, d1=2, end=end, W=W, early=0, tmode=1)
            yield 'P1_parity', dict(k1=1, k2=2, d1=1, end=end, W=W, early=0, tmode=0, listed=False)


PROBES = ['expect_core']      # representation probes (harness/probes.py) this harness depends on


MANIFEST_ENTRY = {
    'level_text': 'Bounded symbolic verification of the real expect_async/PatternWaiter against the real blocking '
                  'expect path on a twin object: stream cut into <=3 chunks at symbolic positions, chunks delivered before '
                  'the first await / during the first call (also after its future resolved) / during the second call, end '
                  'by EOF, EIO connection loss or wait_for timeout, window size, timeout convention; both calls must agree '
                  'in index or exception, before, after, match, match_index and pending text; wait_for receives the '
                  'resolved timeout; the read pipe is connected once.',
    'level_note': 'asyncio is a hand-driven stub; stream content concrete, schedule symbolic; single text pattern.',
}
