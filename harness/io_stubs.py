"""Recording stubs for codecs, log files and write ends (C07, C08, C11)."""
from symx.bstr import lit, tracing, _isb, BStr


class FakeDecoder:
    """Stateful uninterpreted incremental decoder: the k-th call returns a token as long as its input (k-th letter repeated) and records
    (chunk, final).  CPython's decoders are assumed split-invariant (A1); what is checked is that
    pexpect feeds every byte exactly once, in order, to this one object with final=False and passes
    on exactly what it returns."""

    def __init__(self, text=True, holds=()):
        self.calls = []
        self.outs = []
        self.text = text
        self.holds = list(holds)          # how many trailing bytes the k-th call keeps back (an unfinished character)
        self.carry = 0

    def decode(self, b, final=False):
        k = len(self.calls)
        self.calls.append((b, final))
        have = self.carry + len(b)
        h = self.holds[k] if k < len(self.holds) else 0
        if h > have:
            h = have
        if h < 0:
            h = 0
        tok = chr(65 + k) * (have - h)    # distinct per call; empty when everything is still an unfinished character
        self.carry = h
        self.outs.append(tok)
        return tok if self.text else tok.encode()

    def all_out(self):
        return ''.join(self.outs)


class FakeEncoder:
    """records every text it is given; returns an opaque bytes token standing for its encoding"""

    def __init__(self, pad=0):
        self.calls = []
        self.pad = pad                 # every non-empty text encodes to len(text) + pad bytes (multi-byte characters)

    def encode(self, s, final=False):
        self.calls.append((s, final))
        n = len(s)
        return EncTok(s, nbytes=(n + self.pad) if n > 0 else 0)


class EncTok:
    """the bytes an encoder produced for text `s` (opaque)"""

    def __init__(self, s, part=False, nbytes=None):
        self.s = s
        self.part = part               # True: only a slice of the encoder's output
        self.nbytes = nbytes           # number of bytes the text encoded to (need not equal len(text))

    def __len__(self):
        return len(self.s) if self.nbytes is None else self.nbytes

    def __getitem__(self, k):
        return EncTok(self.s[k], part=True)      # a part of the encoded bytes (partial write)


class Events:
    def __init__(self):
        self.ev = []


class RecFile:
    def __init__(self, name, events):
        self.name, self.events = name, events

    def write(self, s):
        self.events.ev.append((self.name, 'write', s))

    def flush(self):
        self.events.ev.append((self.name, 'flush', None))


class WriteEnd:
    """os.write / sendall / stdin.write recorder; a blocking write takes everything and reports the number of
    bytes it was given (A3)"""

    def __init__(self, ret=None):
        self.writes = []
        self.ret = ret

    def write(self, fd, data):
        self.writes.append((fd, data))
        return len(data) if self.ret is None else self.ret

    # file-object flavour (Popen stdin)
    def fwrite(self, data):
        self.writes.append(('stdin', data))
        return len(data) if self.ret is None else self.ret


def same_text(a, b):
    """equality that works for str/bytes/BStr mixes; returns a (possibly symbolic) bool"""
    if _isb(a):
        return a == b
    if _isb(b):
        return b == a
    return a == b
