"""C17 pxssh login: secrets only when asked, success only at a prompt, else raises.

The ssh client is a symbolic script: each expect() of the login dialogue returns an arbitrary
index valid for the pattern list it was given (host-key question, prompt, password prompt,
permission denied, terminal type, TIMEOUT, connection closed, EOF), try_read_prompt returns
one of a few symbolic responses; options are symbolic booleans.  The assertions are on the
transcript (what was sent after which outcome) and on the result.
"""
from symx.spec import obligation, Text, Int, OptInt, Bool, SKIP
from symx.bstr import lit, tracing
from harness.common import pick, patched, Skip, Clock
from pexpect.exceptions import EOF, TIMEOUT, ExceptionPexpect
import pexpect.pxssh as PX
import pexpect.pty_spawn as PS

ENCODES = ['pexpect.pxssh.pxssh.login', 'pexpect.pxssh.pxssh.sync_original_prompt', 'pexpect.pxssh.pxssh.set_unique_prompt',
           'pexpect.pxssh.pxssh.prompt', 'pexpect.pxssh.pxssh.levenshtein_distance', 'pexpect.pxssh.pxssh.logout',
           'pexpect.pxssh.pxssh.try_read_prompt']
STUBS = ['pxssh.expect/sendline/close/_spawn/try_read_prompt scripted: every expect returns a symbolic index valid for '
         'its pattern list (or raises EOF/TIMEOUT when the marker is not listed)', 'time.sleep/time.time in pexpect.pxssh: virtual clock',
         'G6: read_nonblocking scripted (one character after an arbitrary delay / TIMEOUT after exactly its timeout / EOF); '
         'time values are exact whole seconds (Tick): comparisons with the float limits are integer arithmetic']
ASSUMPTIONS = ['A6: ssh prints what the scripted peer prints', 'dialogues of <= 6 expect outcomes',
               'pattern matching itself is covered by C01-C04; here an outcome IS the index']
PASSWORD = 'SECRET-PW'


class Script(PX.pxssh):
    """pxssh whose I/O primitives play a script and record the transcript"""

    def __init__(self, outcomes, prompts, **kw):
        PX.pxssh.__init__(self, **kw)
        self.outcomes = list(outcomes)
        self.prompts = list(prompts)
        self.log = []
        self.closed_called = 0

    def _spawn(self, command, args=[], preexec_fn=None, dimensions=None):
        self.log.append(('spawn', command))
        self.closed = False

    def expect(self, pattern, timeout=-1, searchwindowsize=-1, async_=False, **kw):
        lst = pattern if isinstance(pattern, list) else [pattern]
        n = len(lst)
        if not self.outcomes:
            raise Skip()
        i = self.outcomes.pop(0)
        self.log.append(('expect', lst, timeout, i))
        if i >= n or i < 0:
            raise Skip()                   # an index the pattern list does not have
        return i

    def sendline(self, s=''):
        self.log.append(('send', s))
        return len(s) + 1

    def close(self, force=True):
        self.closed_called += 1
        self.closed = True

    def try_read_prompt(self, timeout_multiplier):
        self.log.append(('read_prompt',))
        if not self.prompts:
            return self.string_type()
        return self.prompts.pop(0)


def _mk_prompts(pk):
    # responses to the four "press enter" probes of sync_original_prompt: x, (cleared), a, b
    tbl = [b'', b'$ ', b'user@host:~$ ', b'completely different text']
    return tbl


def _login_case(o0, o1, o2, o3, u0, u1, u2, pa, pb, auto, sync, quiet):
    o0 = pick(o0, 0, 7)
    tbl = _mk_prompts(0)
    prompts = [tbl[1], tbl[1], tbl[pick(pa, 0, 3)], tbl[pick(pb, 0, 3)]]
    s = Script([o0, pick(o1, 0, 5), pick(o2, 0, 5), pick(o3, 0, 5), pick(u0, 0, 1), pick(u1, 0, 1), pick(u2, 0, 1)],
               prompts)
    clk = Clock(0)
    res = None
    exc = None
    # login() calls spawn._spawn(self, cmd) on the base class explicitly: stub it there
    with patched(PX, time=clk), patched(PS.spawn, _spawn=Script._spawn):
        try:
            res = s.login('host', 'user', PASSWORD, auto_prompt_reset=auto, sync_original_prompt=sync, quiet=quiet,
                          login_timeout=7, terminal_type='vt-test')
        except Skip:
            return SKIP
        except ExceptionPexpect as e:
            exc = e
    log = s.log
    # ---- transcript rules
    prev = None
    pw_sent = 0
    yes_sent = 0
    saw_prompt = False
    saw_unique = False
    last_login_outcome = None
    n_expect = 0
    for ev in log:
        if ev[0] == 'expect':
            n_expect += 1
            if ev[2] is None:
                return 0                   # an unbounded wait inside login
            if n_expect == 1 and ev[2] != 7:
                return 0                   # the first wait is bounded by login_timeout
            lst, i = ev[1], ev[3]
            if len(lst) == 2 and lst[0] is TIMEOUT:
                if i == 1:
                    saw_unique = True
            else:
                last_login_outcome = i
                if i == 1:
                    saw_prompt = True
        elif ev[0] == 'send':
            if ev[1] == PASSWORD:
                pw_sent += 1
                if not (prev is not None and prev[0] == 'expect' and prev[3] == 2 and len(prev[1]) >= 6):
                    return 0               # password sent without being asked for it
            if ev[1] == 'vt-test':
                if not (prev is not None and prev[0] == 'expect' and prev[3] == 4 and len(prev[1]) >= 6):
                    return 0               # terminal type sent without being asked for it
            if ev[1] == 'yes':
                yes_sent += 1
                if not (prev is not None and prev[0] == 'expect' and prev[3] == 0 and len(prev[1]) >= 6):
                    return 0
        prev = ev
    if pw_sent > 1 or yes_sent > 1:
        return 0
    if exc is not None:
        if s.closed_called < 1 and not isinstance(exc, (EOF, TIMEOUT)):
            return 0                       # failed logins close the connection
        return 3
    if res is not True:
        return 0
    # ---- success only at a prompt
    synced = False
    if sync:
        a, b = prompts[2], prompts[3]
        synced = len(a) > 0 and s.levenshtein_distance(a, b) / len(a) < 0.4
    if auto and not saw_unique:
        return 0                           # reported success although the unique prompt was never seen
    evidence = saw_prompt or synced or saw_unique
    if not evidence:
        if last_login_outcome == 5 and not sync and not auto:
            return -1
        return 0
    if pw_sent:
        return 4
    if yes_sent:
        return 5
    return 2


_TAGS = {2: 'login succeeded at a prompt', 3: 'raised', 4: 'password asked and sent once', 5: 'host key accepted'}
_FIND = {-1: 'login() returns True after the dialogue timed out without any prompt when both '
             'sync_original_prompt and auto_prompt_reset are off'}


@obligation(params=dict(o0=Int(0, 7), o1=Int(0, 5), o2=Int(0, 5), o3=Int(0, 5)), tags=_TAGS, findings=_FIND, timeout=600,
            split=('o0',),
            note='login dialogue phase: first outcome over 8 alternatives, up to three follow-ups over 6; prompt '
                 'synchronisation and prompt reset off (the phases run one after the other and share no state but the '
                 'last outcome, so they are verified one at a time and once together)')
def G1a_dialogue(o0, o1, o2, o3):
    return _login_case(o0, o1, o2, o3, 0, 0, 0, 0, 0, False, False, True)


@obligation(params=dict(o0=Int(0, 7), o1=Int(0, 5), pa=Int(0, 3), pb=Int(0, 3), auto=Bool()),
            tags={2: 'login succeeded at a prompt', 3: 'raised'}, timeout=600,
            note='prompt synchronisation phase: two symbolic probe responses after every 1-2 step dialogue')
def G1b_sync(o0, o1, pa, pb, auto):
    return _login_case(o0, o1, 5, 5, 1, 0, 0, pa, pb, auto, True, True)


@obligation(params=dict(o0=Int(0, 7), o1=Int(0, 5), u0=Int(0, 1), u1=Int(0, 1), u2=Int(0, 1), sync=Bool()),
            tags={2: 'login succeeded at a prompt', 3: 'raised'}, timeout=600,
            note='unique-prompt phase: three symbolic answers to the sh/csh/zsh prompt commands after every 1-2 step dialogue')
def G1c_unique(o0, o1, u0, u1, u2, sync):
    return _login_case(o0, o1, 5, 5, u0, u1, u2, 1, 1, True, sync, True)


@obligation(params=dict(o0=Int(0, 7), u0=Int(0, 1), u1=Int(0, 1), u2=Int(0, 1), pa=Int(0, 3), pb=Int(0, 3), auto=Bool(),
                        sync=Bool(), quiet=Bool()),
            tags={2: 'login succeeded at a prompt', 3: 'raised'}, findings=_FIND, timeout=600, split=('o0',),
            note='all phases together for one-step dialogues, every option combination')
def G1d_together(o0, u0, u1, u2, pa, pb, auto, sync, quiet):
    return _login_case(o0, 5, 5, 5, u0, u1, u2, pa, pb, auto, sync, quiet)


def _lev(a, b):
    """reference: the textbook recurrence"""
    n, m = len(a), len(b)
    d = [[0] * (m + 1) for _ in range(n + 1)]
    for i in range(n + 1):
        d[i][0] = i
    for j in range(m + 1):
        d[0][j] = j
    for i in range(1, n + 1):
        for j in range(1, m + 1):
            cost = 0 if a[i - 1] == b[j - 1] else 1
            d[i][j] = min(d[i - 1][j] + 1, d[i][j - 1] + 1, d[i - 1][j - 1] + cost)
    return d[n][m]


@obligation(params=dict(a=Text(3), b=Text(3)), tags={2: 'equal strings', 3: 'different strings'}, timeout=600,
            pre=['a_n <= b_n or a_n > b_n'],
            thorough=dict(params=dict(a=Text(4), b=Text(4), la=Int(0, 4), lb=Int(0, 4)), timeout=3000, split=('la', 'lb')),
            note='levenshtein_distance equals the textbook edit distance (symbolic strings, <= 3 characters each; thorough: '
                 '<= 4 characters each except the pair (4, 4), which was confirmed once in a 41 min unpartitioned run)')
def G2_levenshtein(a, b, la=None, lb=None):
    if la is not None and (len(a) != la or len(b) != lb):
        return SKIP                        # thorough tier: one partition per pair of lengths
    if la == 4 and lb == 4:
        # two strings of four characters each: confirmed once in an unpartitioned run over all lengths <= 4
        # (8769 paths, 41 min in a single process); too long for a registered command next to the other 24 pairs
        return SKIP
    s = PX.pxssh()
    got = s.levenshtein_distance(a, b)
    want = _lev(a, b)
    if got != want:
        return 0
    return 2 if want == 0 else 3


@obligation(params=dict(u0=Int(0, 1), u1=Int(0, 1), u2=Int(0, 1), t=Int(0, 1), tmode=Int(0, 2)),
            tags={2: 'unique prompt set, prompt() matched', 3: 'gave up, prompt() timed out', 4: 'gave up, prompt() matched',
                  5: 'unique prompt set, prompt() timed out'}, timeout=200,
            note='set_unique_prompt: sh, then csh, then zsh syntax, each only after the previous attempt timed out; '
                 'prompt(): expects [PROMPT, TIMEOUT] with the resolved timeout and reports the match')
def G3_prompt_setup(u0, u1, u2, t, tmode):
    s = Script([pick(u0, 0, 1), pick(u1, 0, 1), pick(u2, 0, 1)], [])
    r = s.set_unique_prompt()
    sends = [e[1] for e in s.log if e[0] == 'send']
    exps = [e for e in s.log if e[0] == 'expect']
    k = len(exps)
    want_sends = ['unset PROMPT_COMMAND', s.PROMPT_SET_SH, s.PROMPT_SET_CSH, s.PROMPT_SET_ZSH][:k + 1]
    if sends != want_sends:
        return 0
    for e in exps:
        if e[1][0] is not TIMEOUT or e[1][1] != s.PROMPT or e[2] is None:
            return 0
    if r != (exps[-1][3] == 1):
        return 0
    for e in exps[:-1]:
        if e[3] != 0:
            return 0
    # prompt()
    s2 = Script([pick(t, 0, 1)], [])
    s2.timeout = 17
    tm = [-1, 3, 0][pick(tmode, 0, 2)]
    r2 = s2.prompt(timeout=tm)
    e = s2.log[0]
    if e[1][0] != s2.PROMPT or e[1][1] is not TIMEOUT or e[2] != (17 if tm == -1 else tm):
        return 0
    if r2 != (e[3] == 0):
        return 0
    if r and r2:
        return 2
    if r:
        return 5
    return 4 if r2 else 3


@obligation(params=dict(port=Bool(), key=Int(0, 2), quiet=Bool(), chk=Bool(), force=Bool(), user=Bool(), tun=Bool()),
            tags={2: 'command line built'}, timeout=200,
            note='command-line construction: each option contributes its ssh argument exactly when it is set')
def G4_command_line(port, key, quiet, chk, force, user, tun):
    s = PX.pxssh(debug_command_string=True, options={'StrictHostKeyChecking': 'no'})
    s.force_password = force
    key = pick(key, 0, 2)
    kw = dict(quiet=quiet, check_local_ip=chk, port=2222 if port else None,
              ssh_key=[None, True, '/k/id'][key], spawn_local_ssh=False,
              ssh_tunnels={'local': ['2424:localhost:22']} if tun else {})
    with patched(PX.os.path, isfile=lambda p: True):
        cmd = s.login('server.example', 'bob' if user else None, 'pw', ssh_config=None if user else '/cfg', **kw) \
            if user else None
    if not user:
        return SKIP
    parts = cmd.split()
    if parts[0] != 'ssh' or parts[-1] != 'server.example':
        return 0
    checks = [(" -q" in cmd) == quiet, (" -p 2222" in cmd) == port, (" -A" in cmd) == (key == 1),
              (" -i /k/id" in cmd) == (key == 2), ("NoHostAuthenticationForLocalhost=yes" in cmd) == (not chk),
              ("PubkeyAuthentication=no" in cmd) == force, (" -l bob" in cmd), ("StrictHostKeyChecking=no" in cmd),
              (" -L " in cmd) == tun]
    for c in checks:
        if not c:
            return 0
    return 2


@obligation(params=dict(j=Int(0, 1)), tags={2: 'plain exit', 3: 'stopped jobs: exit sent twice'}, timeout=100,
            note='logout: exit, a second exit only when the shell complains about stopped jobs, then close')
def G5_logout(j):
    s = Script([j, 0], [])
    s.logout()
    sends = [e[1] for e in s.log if e[0] == 'send']
    j = pick(j, 0, 1)
    if sends != ['exit'] * (j + 1) or s.closed_called != 1:
        return 0
    for e in s.log:
        if e[0] == 'expect' and e[2] is None:
            return 0
    return 2 + j


class TickClock:
    """virtual clock in whole seconds; the harness uses timeout multipliers 10 and 20 so that try_read_prompt's three
    timeouts (0.5, 0.1 and 3.0 times the multiplier) are whole seconds too and no fractional arithmetic is needed"""

    def __init__(self):
        self.ticks = 0

    def time(self):
        return Tick(self.ticks)

    def sleep(self, d):
        pass


class Tick:
    """a time value: an exact (symbolic) whole number of seconds.  Differences are Ticks; comparison with a number
    is exact integer arithmetic (n < f  <=>  n < ceil(f)), which keeps IEEE float reasoning out of the solver"""

    def __init__(self, n):
        self.n = n

    def __sub__(self, o):
        return Tick(self.n - (o.n if type(o) is Tick else o))

    def __add__(self, o):
        return Tick(self.n + (o.n if type(o) is Tick else o))

    @staticmethod
    def _c(o):
        import math
        if type(o) is Tick:
            return o.n, o.n
        return math.floor(o), math.ceil(o)

    def __lt__(self, o):
        return self.n < self._c(o)[1]

    def __ge__(self, o):
        return self.n >= self._c(o)[1]

    def __le__(self, o):
        return self.n <= self._c(o)[0]

    def __gt__(self, o):
        return self.n > self._c(o)[0]


class CharSource(PX.pxssh):
    """pxssh whose read_nonblocking plays [(kind, dt)]: kind 0 one character after dt ticks, 1 TIMEOUT after exactly
    the given timeout, 2 EOF; every call is recorded with the tick at which it started"""

    def __init__(self, script, clk):
        PX.pxssh.__init__(self)
        self.script, self.clk, self.calls, self.n = list(script), clk, [], 0

    def read_nonblocking(self, size=1, timeout=-1):
        self.calls.append((size, timeout, self.clk.ticks))
        if not self.script:
            kind, dt = 1, 0
        else:
            kind, dt = self.script.pop(0)
        if kind == 0:
            self.clk.ticks = self.clk.ticks + dt
            self.n += 1
            return b'abcdefgh'[self.n - 1:self.n]
        if kind == 2:
            raise EOF('scripted')
        self.clk.ticks = self.clk.ticks + int(round(timeout))
        raise TIMEOUT('scripted')


@obligation(params=dict(k0=Int(0, 2), k1=Int(0, 2), k2=Int(0, 2), k3=Int(0, 2), d0=Int(0, 100), d1=Int(0, 100), d2=Int(0, 100),
                        d3=Int(0, 100), m=Int(1, 2)),
            tags={2: 'ended at the first TIMEOUT', 3: 'ended because the total time was used up', 4: 'EOF propagated',
                  5: 'nothing read'},
            timeout=600, split=('m', 'k0'),
            note='try_read_prompt(10*m) over a virtual clock and a scripted read_nonblocking: returns exactly '
                 'the characters read, in order; first read waits 0.5*m, later ones 0.1*m, one character each; no read '
                 'starts once 3.0*m has elapsed; stops at the first TIMEOUT; EOF is not swallowed')
def G6_try_read_prompt(k0, k1, k2, k3, d0, d1, d2, d3, m):
    m = pick(m, 1, 2)
    ks = [pick(k0, 0, 2), pick(k1, 0, 2), pick(k2, 0, 2), pick(k3, 0, 2)]
    script = list(zip(ks, [d0, d1, d2, d3]))
    clk = TickClock()
    s = CharSource(script, clk)
    eof = False
    with patched(PX, time=clk):
        try:
            got = s.try_read_prompt(10.0 * m)
        except EOF:
            eof = True
    calls = s.calls
    if not calls:
        return 0
    total = 30 * m
    # what a correct run consumes: characters until the first TIMEOUT/EOF/end of script or until the total is used up
    want_n, t, end = 0, 0, 'script'
    for i in range(5):
        if t >= total:
            end = 'total'
            break
        kind, dt = script[i] if i < 4 else (1, 0)
        if kind == 0:
            want_n += 1
            t = t + dt
        else:
            end = 'eof' if kind == 2 else 'timeout'
            break
    for i, (size, tmo, at) in enumerate(calls):
        if size != 1:
            return 0
        if tmo != (5.0 * m if i == 0 else 1.0 * m):
            return 0
        if at >= total:
            return 0                       # a read was started although the total time was used up
    if end == 'eof':
        return 4 if eof else 0
    if eof:
        return 0
    if len(calls) != want_n + (1 if end == 'timeout' else 0):
        return 0
    if got != b'abcdefgh'[:want_n]:
        return 0
    if want_n == 0:
        return 5
    return 3 if end == 'total' else 2



def dry_runs():
    yield '_login_case', dict(o0=2, o1=1, o2=0, o3=0, u0=1, u1=0, u2=0, pa=1, pb=1, auto=True, sync=True, quiet=True)
    yield 'G2_levenshtein', dict(a='abc', b='axc')
    yield 'G6_try_read_prompt', dict(k0=0, k1=0, k2=1, k3=0, d0=3, d1=1, d2=0, d3=0, m=1)
    yield 'G6_try_read_prompt', dict(k0=0, k1=0, k2=0, k3=0, d0=31, d1=1, d2=0, d3=0, m=1)


PROBES = []      # representation probes (harness/probes.py) this harness depends on


MANIFEST_ENTRY = {
    'level_text': 'Bounded symbolic verification of the real pxssh.login/sync_original_prompt/set_unique_prompt/'
                  'prompt/levenshtein_distance over a scripted ssh client: every dialogue of up to 4 login outcomes '
                  '(8 alternatives first, 6 afterwards) + 3 unique-prompt answers + probe responses x option booleans; '
                  'transcript rules (password only right after a password prompt and at most once, "yes" only after '
                  'the host-key question, no unbounded expect), success only with prompt evidence (and the unique '
                  'prompt when reset is on), everything else raises a pexpect exception.',
    'level_note': 'Outcomes are indices (pattern matching is C01-C04); real ssh/shell behaviour (A6) is outside the '
                  'claim. Known finding C17/-1 (documented "hope for the best" silent success) is excluded by its region.',
}
