"""Nondeterministic operating-system stubs under their documented contracts.

PeerWorld models one read end (pty master, pipe, fd) and the peer behind it.  The peer's
remaining actions (write, write, exit/close) happen "before the reader's k-th system call"
for symbolic k - the reader's system calls (readiness poll, read, liveness check, timed
wait) are counted, and each pending peer action whose position has been passed is applied
first.  A blocking wait additionally lets the peer act while the reader sleeps.

Contents are a fixed marker stream with symbolic lengths: the transport code never inspects
data (only `== b''` and len()), so this loses nothing and keeps every string concrete.
"""
import errno

from harness.common import Skip

STREAM = b'abcdefghijklmnop'


class PeerWorld:
    def __init__(self, written, rd, gone, events, pty=True, now=0):
        """written/rd: bytes written / read so far; gone: peer already exited/closed;
        events: [(pos, 'w', new_total) | (pos, 'x', 0)] sorted by pos (positions are counted in
        the reader's system calls from now on)."""
        self.written, self.rd, self.gone = written, rd, gone
        self.ev = [] if gone else list(events)
        self.n = 0
        self.pty = pty
        self.now = now
        self.log = []
        self.eintr = 0
        self.hung = False

    # -- peer ---------------------------------------------------------------------
    def _apply(self, e):
        if e[1] == 'w':
            if e[2] > self.written:
                self.written = e[2]
        else:
            self.gone = True

    def tick(self):
        self.n += 1
        while self.ev and self.ev[0][0] < self.n:
            self._apply(self.ev.pop(0))

    def flush(self):
        while self.ev:
            self._apply(self.ev.pop(0))

    def readable(self):
        return self.written > self.rd or self.gone

    # -- reader system calls ----------------------------------------------------------
    def select(self, timeout):
        """readiness wait on the read end; returns True when readable.
        timeout None blocks until readable (a peer that stays silent forever while alive makes
        the call hang: that input is outside the environment contract -> Skip)."""
        self.tick()
        self.log.append(('select', timeout))
        if self.readable():
            return True
        if timeout is None:
            while self.ev and not self.readable():
                self._apply(self.ev.pop(0))
            if not self.readable():
                self.hung = True
                raise Skip()
            return True
        if timeout > 0:
            # the peer may act while the reader sleeps: one more scheduling point
            self.tick()
            self.now = self.now + timeout
            return self.readable()
        return False

    def read(self, size):
        self.tick()
        self.log.append(('read', size))
        avail = self.written - self.rd
        if avail == 0:
            if self.gone:
                if self.pty:
                    raise OSError(errno.EIO, 'EIO')
                return b''
            raise AssertionError('stub: read would block (called without readiness)')
        n = size if size < avail else avail
        r = STREAM[self.rd:self.rd + n]
        self.rd += n
        return r

    def alive(self):
        self.tick()
        self.log.append(('alive',))
        return not self.gone


class FakeOS:
    """stands in for the `os` module inside pexpect.spawnbase (os.read only)."""
    linesep = '\n'

    def __init__(self, w):
        self.w = w

    def read(self, fd, size):
        return self.w.read(size)


class FakePty:
    """stands in for ptyprocess.PtyProcess as far as read_nonblocking is concerned."""
    status = exitstatus = signalstatus = None

    def __init__(self, w):
        self.w = w
        self.flag_eof = False

    def isalive(self):
        return self.w.alive()
