"""Nondeterministic operating-system stubs under their documented contracts.

PeerWorld models one read end (pty master, pipe, fd) and the peer behind it.  The peer's
remaining actions (write, write, exit/close) happen "before the reader's k-th system call"
for symbolic k - the reader's system calls (readiness poll, read, liveness check, timed
wait) are counted, and each pending peer action whose position has been passed is applied
first.  A blocking wait additionally lets the peer act while the reader sleeps.

Contents are a fixed marker stream with symbolic lengths: the transport code never inspects
data (only `== b''` and len()), so this loses nothing and keeps every string concrete.
"""
import errno

from harness.common import Skip

STREAM = b'abcdefghijklmnop'


class PeerWorld:
    def __init__(self, written, rd, gone, events, pty=True, now=0):
        """written/rd: bytes written / read so far; gone: peer already exited/closed;
        events: [(pos, 'w', new_total) | (pos, 'x', 0)] sorted by pos (positions are counted in
        the reader's system calls from now on)."""
        self.written, self.rd, self.gone = written, rd, gone
        self.ev = [] if gone else list(events)
        self.n = 0
        self.pty = pty
        self.now = now
        self.log = []
        self.eintr = 0
        self.hung = False

    # -- peer ---------------------------------------------------------------------
    def _apply(self, e):
        if e[1] == 'w':
            if e[2] > self.written:
                self.written = e[2]
        else:
            self.gone = True

    def tick(self):
        self.n += 1
        while self.ev and self.ev[0][0] < self.n:
            self._apply(self.ev.pop(0))

    def flush(self):
        while self.ev:
            self._apply(self.ev.pop(0))

    def readable(self):
        return self.written > self.rd or self.gone

    # -- reader system calls ----------------------------------------------------------
    def select(self, timeout):
        """readiness wait on the read end; returns True when readable.
        timeout None blocks until readable (a peer that stays silent forever while alive makes
        the call hang: that input is outside the environment contract -> Skip)."""
        self.tick()
        self.log.append(('select', timeout))
        if self.readable():
            return True
        if timeout is None:
            while self.ev and not self.readable():
                self._apply(self.ev.pop(0))
            if not self.readable():
                self.hung = True
                raise Skip()
            return True
        if timeout > 0:
            # the peer may act while the reader sleeps: one more scheduling point
            self.tick()
            self.now = self.now + timeout
            return self.readable()
        return False

    def read(self, size):
        self.tick()
        self.log.append(('read', size))
        avail = self.written - self.rd
        if avail == 0:
            if self.gone:
                if self.pty:
                    raise OSError(errno.EIO, 'EIO')
                return b''
            raise AssertionError('stub: read would block (called without readiness)')
        n = size if size < avail else avail
        r = STREAM[self.rd:self.rd + n]
        self.rd += n
        return r

    def alive(self):
        self.tick()
        self.log.append(('alive',))
        return not self.gone


class FakeOS:
    """stands in for the `os` module inside pexpect.spawnbase (os.read only)."""
    linesep = '\n'

    def __init__(self, w):
        self.w = w

    def read(self, fd, size):
        return self.w.read(size)


class FakePty:
    """stands in for ptyprocess.PtyProcess as far as read_nonblocking is concerned."""
    status = exitstatus = signalstatus = None

    def __init__(self, w):
        self.w = w
        self.flag_eof = False

    def isalive(self):
        return self.w.alive()


# ---------------------------------------------------------------------------------------------
class Hang(Exception):
    """a system call that can never return (e.g. blocking waitpid on a child that never exits)"""


SIGHUP, SIGINT, SIGKILL, SIGTERM, SIGCONT, SIGSTOP = 1, 2, 9, 15, 18, 19
RUNNING, STOPPED, ZOMBIE, REAPED = 0, 1, 2, 3


class ProcWorld:
    """One child process, POSIX signal delivery rules, the parent's descriptor table.

    * the child exits by itself with wait status `status_nat` before the parent's `exit_at`-th system
      call (never if exit_at is None); a stopped child does not run
    * HUP/INT are ignored per disposition bits; every other signal (and HUP/INT when not ignored)
      terminates the child (wait status = signal number); KILL always terminates; STOP stops;
      signals sent to a stopped child stay pending until CONT
    * waitpid(WNOHANG) never blocks; waitpid(0) blocks until the child is a zombie - Hang if it never will be
    * W* macros are arithmetic on the 16-bit status
    * descriptors: close() of a number that is not open fails with EBADF; a closed number may be
      re-issued to a new owner (reuse())
    """
    WNOHANG = 1

    def __init__(self, status_nat, exit_at, ign_hup, ign_int, stopped, fds=(7,)):
        self.status_nat, self.exit_at = status_nat, exit_at
        self.ign_hup, self.ign_int = ign_hup, ign_int
        self.state = STOPPED if stopped else RUNNING
        self.status = None
        self.pending = []
        self.n = 0
        self.fds = {fd: 'child' for fd in fds}
        self.sent = []
        self.kills_after_reap = 0
        self.foreign_io = 0

    # -- scheduling
    def tick(self):
        self.n += 1
        if self.state == RUNNING and self.exit_at is not None and self.n > self.exit_at:
            self.state, self.status = ZOMBIE, self.status_nat

    def _deliver(self, sig):
        if self.state in (ZOMBIE, REAPED):
            return
        if sig == SIGKILL:
            self.state, self.status = ZOMBIE, SIGKILL
            return
        if sig == SIGCONT:
            if self.state == STOPPED:
                self.state = RUNNING
                pend, self.pending = self.pending, []
                for s in pend:
                    self._deliver(s)
            return
        if sig == SIGSTOP:
            self.state = STOPPED
            return
        if self.state == STOPPED:
            self.pending.append(sig)
            return
        if sig == 0:
            return
        if (sig == SIGHUP and self.ign_hup) or (sig == SIGINT and self.ign_int):
            return
        self.state, self.status = ZOMBIE, sig

    # -- os API
    def kill(self, pid, sig):
        self.tick()
        self.sent.append(sig)
        if self.state == REAPED:
            self.kills_after_reap += 1
            raise OSError(errno.ESRCH, 'ESRCH')
        self._deliver(sig)

    def waitpid(self, pid, opts):
        self.tick()
        if self.state == REAPED:
            raise OSError(errno.ECHILD, 'ECHILD')
        if self.state != ZOMBIE:
            if opts == self.WNOHANG:
                return (0, 0)
            if self.state == RUNNING and self.exit_at is not None:
                self.state, self.status = ZOMBIE, self.status_nat
            else:
                raise Hang()
        self.state = REAPED
        return (pid, self.status)

    def close(self, fd):
        self.tick()
        if fd not in self.fds:
            raise OSError(errno.EBADF, 'EBADF')
        if self.fds[fd] != 'child':
            self.foreign_io += 1
        del self.fds[fd]
        # closing the master side hangs up the terminal: the child gets SIGHUP
        self._deliver(SIGHUP)

    def reuse(self, fd):
        """the kernel hands the (free) number to somebody else"""
        if fd not in self.fds:
            self.fds[fd] = 'other'

    def write(self, fd, data):
        if fd not in self.fds:
            raise OSError(errno.EBADF, 'EBADF')
        if self.fds[fd] != 'child':
            self.foreign_io += 1
        return len(data)

    def read(self, fd, n):
        if fd not in self.fds:
            raise OSError(errno.EBADF, 'EBADF')
        if self.fds[fd] != 'child':
            self.foreign_io += 1
        raise OSError(errno.EIO, 'EIO')

    def fstat(self, fd):
        if fd not in self.fds:
            raise OSError(errno.EBADF, 'EBADF')
        return None

    def isatty(self, fd):
        return fd in self.fds

    @staticmethod
    def WIFEXITED(s):
        return s % 128 == 0

    @staticmethod
    def WEXITSTATUS(s):
        return (s // 256) % 256

    @staticmethod
    def WIFSIGNALED(s):
        return s % 128 != 0 and s % 128 != 127

    @staticmethod
    def WTERMSIG(s):
        return s % 128

    @staticmethod
    def WIFSTOPPED(s):
        return s % 256 == 127

    O_RDONLY = 0
    linesep = '\n'
    name = 'posix'


class FakeFileObj:
    def __init__(self, w, fd):
        self.w, self.fd, self.closed = w, fd, False

    def close(self):
        if not self.closed:
            self.closed = True
            self.w.close(self.fd)

    def fileno(self):
        return self.fd

    def write(self, b):
        if self.closed:
            raise ValueError('write to closed file')
        return self.w.write(self.fd, b)

    def flush(self):
        pass


def _init_ptyprocess_constants():
    import ptyprocess.ptyprocess as PP
    PP._make_eof_intr()       # normally done by PtyProcess.__init__ (we build instances without forking)


_init_ptyprocess_constants()


def make_pty_spawn(w, fd=7, pid=4242, **kw):
    """A pexpect.spawn object attached to a real ptyprocess.PtyProcess instance (built without
    forking) whose `os`/`time` are the world's."""
    import ptyprocess.ptyprocess as PP
    import pexpect.pty_spawn as PS
    pt = PP.PtyProcess.__new__(PP.PtyProcess)
    pt.pid, pt.fd, pt.terminated, pt.closed = pid, fd, False, False
    pt.exitstatus = pt.signalstatus = pt.status = None
    pt.flag_eof = False
    pt.delayafterclose = 0
    pt.delayafterterminate = 0
    pt.fileobj = FakeFileObj(w, fd)
    sp = PS.spawn(None, **kw)
    sp.ptyproc, sp.pid, sp.child_fd, sp.closed, sp.terminated = pt, pid, fd, False, False
    sp.delayafterclose = 0
    sp.delayafterterminate = 0
    sp.delaybeforesend = None
    sp.use_poll = False
    return sp, pt


class disarm:
    """PtyProcess.__del__ calls close() on an unclosed instance.  Our instances are garbage collected at
    an arbitrary later moment (possibly in the middle of the next symbolic path, with `os` patched to
    that path's world), so they are marked closed when the harness is done with them."""

    def __init__(self, pt):
        self.pt = pt

    def __enter__(self):
        return self

    def __exit__(self, *a):
        self.pt.closed = True
        return False
