"""C20 a pattern means the same in every accepted form; other objects are rejected before
any child output is consumed.

`re` inside pexpect.spawnbase is replaced by a recording stand-in: compile(text, flags)
returns a pattern object carrying exactly (text, flags).  By assumption A2 (CPython re: equal
text and flags => equal behaviour) it suffices to show that every accepted form ends up, in
the searcher handed to the expect machinery, as the same (text, effective flags) as the
native form.
"""
from symx.spec import obligation, Text, Bytes, Int, OptInt, Bool, SKIP
from symx.bstr import lit, tracing, mk
from harness.common import (ScriptedSpawn, frozen_time, fake_re, LitPat, patched, pick, FakeRe, quiet_searchers)
from pexpect.exceptions import EOF, TIMEOUT
import pexpect.spawnbase as SB
import re as _re

ENCODES = ['pexpect.spawnbase.SpawnBase.compile_pattern_list', 'pexpect.spawnbase.SpawnBase._coerce_expect_string',
           'pexpect.spawnbase.SpawnBase._coerce_expect_re', 'pexpect.spawnbase.SpawnBase.expect',
           'pexpect.spawnbase.SpawnBase.expect_exact', 'pexpect.spawnbase.SpawnBase.expect_list',
           'pexpect.spawnbase.SpawnBase._pattern_type_err']
STUBS = ['pexpect.spawnbase.re: compile(text, flags) records and returns a pattern carrying (text, flags); all fake '
         'patterns are instances of type(re.compile(""))', 'Expecter replaced by a recorder (captures the searcher)',
         'ScriptedSpawn counts reads for the "nothing consumed" clause']
ASSUMPTIONS = ['A2: equal (pattern text, flags) select equal occurrences (CPython re)',
               'pattern text <= 3 characters; cross-type forms: ASCII text (documented: ASCII text given to a bytes-mode object)',
               'the UNICODE flag (implied for str patterns, illegal for bytes patterns) and LOCALE (bytes only) are '
               'type-specific and ignored in the comparison']

I, M, S, X, A_, U, L = _re.I, _re.M, _re.S, _re.X, _re.A, _re.U, _re.L


class _Rec:
    last = None

    def __init__(self, spawn, searcher, searchwindowsize=-1):
        _Rec.last = self
        self.spawn, self.searcher = spawn, searcher

    def expect_loop(self, timeout=-1):
        return 'R'


def _flags(fi, fm, fs, fx, fa):
    return (I if fi else 0) | (M if fm else 0) | (S if fs else 0) | (X if fx else 0) | (A_ if fa else 0)


@obligation(params=dict(t=Text(3, min=1, maxch=128), unicode_mode=Bool(), form=Int(0, 3), ign=Bool(), fi=Bool(), fm=Bool(),
                        fs=Bool(), fx=Bool(), fa=Bool(), single=Bool(), via_list=Bool()),
            tags={2: 'string, native type', 3: 'string, other type (bytes mode accepts ASCII text)',
                  4: 'compiled, native type (passed through)', 5: 'compiled, other type (re-compiled with its flags)'},
            timeout=400, split=('form', 'unicode_mode'),
            thorough=dict(params=dict(t=Text(5, min=1, maxch=128)), timeout=1500, split=('form', 'unicode_mode', 'ign')),
            note='every accepted form of one pattern reaches the searcher as (native text, effective flags); a single '
                 'pattern equals a one-element list; expect() and compile_pattern_list()+expect_list() agree')
def F1_forms(t, unicode_mode, form, ign, fi, fm, fs, fx, fa, single, via_list):
    form = pick(form, 0, 3)
    F = _flags(fi, fm, fs, fx, fa)
    native_t = t if unicode_mode else t.encode('ascii')
    other_t = t.encode('ascii') if unicode_mode else t
    sp = ScriptedSpawn([], kind='t' if unicode_mode else 'b')
    sp.ignorecase = ign
    if form == 0:
        pat = native_t
    elif form == 1:
        if unicode_mode:
            return SKIP                    # unicode mode is strictly unicode: covered by F2
        pat = other_t
    else:
        pat = LitPat(native_t if form == 2 else other_t)
        is_text_pattern = ((form == 2) == unicode_mode)
        # CPython: a str pattern carries UNICODE unless compiled with ASCII; a bytes pattern never does
        pat.flags = F | (U if (is_text_pattern and not fa) else 0)
    arg = pat if single else [pat]
    with patched(SB, Expecter=_Rec, re=FakeRe()):
        if via_list:
            cpl = sp.compile_pattern_list(arg)
            r = sp.expect_list(cpl)
        else:
            r = sp.expect(arg)
    if r != 'R':
        return 0
    if not single and (len(arg) != 1 or arg[0] is not pat):
        return 0                            # the caller's own list was changed (a re-used list would mean something else)
    items = _Rec.last.searcher._searches
    if len(items) != 1 or items[0][0] != 0:
        return 0
    got = items[0][1]
    if not (got.pattern == native_t):
        return 0
    gf = got.flags & ~U & ~L
    if form <= 1:
        want = S | (I if ign else 0)
        if gf != want:
            return 0
        return 2 + form
    if form == 2:
        if got is not pat:
            return 0                        # a native compiled pattern must be used as it is
        return 4
    if gf != (F & ~U & ~L):
        return 0                            # the user's own flags were not honoured
    return 5


BAD = ['int', 'float', 'None inside a list', 'nested list', 'wrong string type', 'compiled pattern to expect_exact',
       'object()']


@obligation(params=dict(unicode_mode=Bool(), bad=Int(0, 6), entry=Int(0, 1), pos=Int(0, 2), P0=Text(2, maxch=128)),
            tags={2: 'TypeError, nothing consumed'}, timeout=300,
            note='every non-pattern object - alone or at any position of a list next to valid patterns - is rejected '
                 'with TypeError before read_nonblocking is called; pending text and before/after stay untouched')
def F2_rejected(unicode_mode, bad, entry, pos, P0):
    bad, entry, pos = pick(bad, 0, 6), pick(entry, 0, 1), pick(pos, 0, 2)
    kind = 't' if unicode_mode else 'b'
    pend = P0 if unicode_mode else P0.encode('ascii')
    good = lit('ok') if unicode_mode else lit(b'ok')
    sp = ScriptedSpawn([('data', good)], kind=kind)
    sp._before.write(pend)
    sp._buffer.write(pend)
    objs = [5, 2.5, None, [good], (lit(b'ok') if unicode_mode else None), LitPat(good), object()]
    o = objs[bad]
    if bad == 4 and not unicode_mode:
        return SKIP                        # bytes mode accepts text (covered by F1)
    if bad == 5 and entry == 0:
        return SKIP                        # compiled patterns are fine for expect()
    lst = [good, EOF]
    lst.insert(pos, o)
    arg = lst
    if bad in (0, 1, 4, 5, 6) and pos == 2:
        arg = o                            # also try the bare object
    try:
        with fake_re(), frozen_time(), quiet_searchers():
            if entry == 0:
                sp.expect(arg, timeout=1)
            else:
                sp.expect_exact(arg, timeout=1)
        return 0
    except TypeError:
        pass
    if sp.reads != 0:
        return 0
    if not (sp._before.getvalue() == pend) or not (sp.buffer == pend):
        return 0
    if sp.before is not None or sp.after is not None:
        return 0
    return 2


@obligation(params=dict(t=Text(3, min=1, maxch=128), unicode_mode=Bool(), astext=Bool(), single=Bool(), k=Int(0, 2)),
            tags={2: 'exact string, native', 3: 'exact string, ASCII text in bytes mode', 4: 'EOF/TIMEOUT alone'},
            timeout=300, thorough=dict(params=dict(t=Text(5, min=1, maxch=128)), timeout=900),
            note='expect_exact: strings reach searcher_string in the native type (ASCII text encoded in bytes mode); '
                 'a single string/EOF/TIMEOUT equals a one-element list')
def F3_exact_forms(t, unicode_mode, astext, single, k):
    k = pick(k, 0, 2)
    native_t = t if unicode_mode else t.encode('ascii')
    sp = ScriptedSpawn([], kind='t' if unicode_mode else 'b')
    if k:
        marker = EOF if k == 1 else TIMEOUT
        with patched(SB, Expecter=_Rec):
            sp.expect_exact(marker if single else [marker])
        sr = _Rec.last.searcher
        if sr._strings or (sr.eof_index, sr.timeout_index) != ((0, -1) if k == 1 else (-1, 0)):
            return 0
        return 4
    if astext and unicode_mode:
        astext = False
    pat = t if (astext or unicode_mode) else native_t
    with patched(SB, Expecter=_Rec):
        sp.expect_exact(pat if single else [pat])
    sr = _Rec.last.searcher
    if len(sr._strings) != 1 or sr._strings[0][0] != 0 or not (sr._strings[0][1] == native_t):
        return 0
    if sr.longest_string != len(t):
        return 0
    return 3 if (astext and not unicode_mode) else 2


def R_real_re(fi, fm, fs, fx, fa, unicode_mode, form, ign):
    """concrete cross-check with CPython's real `re` (no stubs): a compiled pattern of either string type, with
    any combination of the five flags, given to either mode, finds the same occurrence as the native form"""
    F = _flags(fi, fm, fs, fx, fa)
    text = 'x\nOK 1\nok 2\n'
    pat_t = 'ok.\\d$' if not fx else 'ok . \\d $'
    sp = ScriptedSpawn([('data', text if unicode_mode else text.encode())], kind='t' if unicode_mode else 'b')
    sp.ignorecase = ign
    if tracing():
        return 1
    import io
    sp.buffer_type = io.StringIO if unicode_mode else io.BytesIO
    sp._before, sp._buffer = sp.buffer_type(), sp.buffer_type()
    native = _re.compile(pat_t if unicode_mode else pat_t.encode(), F)
    other = _re.compile(pat_t.encode() if unicode_mode else pat_t, F)
    given = native if form == 0 else other
    with frozen_time():
        i = sp.expect([given, TIMEOUT], timeout=1)
    m = native.search(text if unicode_mode else text.encode())
    if m is None:
        return 2 if i == 1 else 0
    if i != 0 or sp.match.span() != m.span() or sp.after != m.group(0):
        return 0
    return 3


def dry_runs():
    import itertools
    for bits in itertools.product((False, True), repeat=5):
        for um in (False, True):
            for form in (0, 1):
                yield 'R_real_re', dict(fi=bits[0], fm=bits[1], fs=bits[2], fx=bits[3], fa=bits[4], unicode_mode=um,
                                        form=form, ign=False)
    for form in range(4):
        for um in (False, True):
            yield 'F1_forms', dict(t='a.b', unicode_mode=um, form=form if not (um and form == 1) else 0, ign=True, fi=True,
                                   fm=False, fs=True, fx=False, fa=False, single=bool(form % 2), via_list=bool(form // 2))
    for bad in range(7):
        yield 'F2_rejected', dict(unicode_mode=True, bad=bad, entry=1 if bad == 5 else 0, pos=1, P0='ab')
    yield 'F3_exact_forms', dict(t='ab', unicode_mode=False, astext=True, single=True, k=0)
    yield 'F3_exact_forms', dict(t='ab', unicode_mode=True, astext=False, single=False, k=2)


PROBES = ['expect_core']      # representation probes (harness/probes.py) this harness depends on


MANIFEST_ENTRY = {
    'level_text': 'Bounded symbolic verification of the real compile_pattern_list/_coerce_expect_*/expect/expect_list/'
                  'expect_exact: symbolic pattern text (<=3 ASCII characters), a symbolic set of five regex flags, '
                  'bytes/unicode mode, ignorecase, single vs list, every accepted form; the searcher handed to the '
                  'expect machinery carries the same (text, flags) as the native form. Every other object (7 kinds, '
                  'any list position) raises TypeError with zero reads and pending text untouched.',
    'level_note': 'Assumes CPython re: equal (text, flags) => equal matches (A2); UNICODE/LOCALE are type-specific and '
                  'ignored.',
}
