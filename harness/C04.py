"""C04 EOF/TIMEOUT outcomes: index if listed else exactly that exception; before holds all
pending text; a pending occurrence beats EOF/TIMEOUT even with timeout 0; EOF is sticky;
other errors pass through unchanged; building the diagnostic message never fails."""
from symx.spec import obligation, Text, Bytes, Int, OptInt, Bool, SKIP
from symx.bstr import lit, tracing
from harness.common import (ScriptedSpawn, frozen_time, fake_re, LitPat, AbsSearcher, Skip, state_spawn,
                            quiet_searchers, pick)
from pexpect.expect import Expecter, searcher_string, searcher_re
from pexpect.exceptions import EOF, TIMEOUT, ExceptionPexpect
import pexpect.pty_spawn as PS
import pexpect.fdpexpect as FD
import pexpect.socket_pexpect as SK

ENCODES = ['pexpect.expect.Expecter.expect_loop', 'pexpect.expect.Expecter.eof', 'pexpect.expect.Expecter.timeout',
           'pexpect.expect.Expecter.errored', 'pexpect.expect.Expecter.existing_data',
           'pexpect.expect.searcher_string.__init__', 'pexpect.expect.searcher_re.__init__',
           'pexpect.expect.searcher_string.__str__', 'pexpect.expect.searcher_re.__str__',
           'pexpect.spawnbase.SpawnBase.expect', 'pexpect.spawnbase.SpawnBase.expect_exact',
           'pexpect.spawnbase.SpawnBase.expect_list', 'pexpect.spawnbase.SpawnBase.expect_loop',
           'pexpect.spawnbase.SpawnBase.read', 'pexpect.spawnbase.SpawnBase.readline',
           'pexpect.spawnbase.SpawnBase.compile_pattern_list', 'pexpect.pty_spawn.spawn.__str__']
STUBS = ['ScriptedSpawn.read_nonblocking: scripted transport; EOF sticky in the script', 'pexpect.expect.time frozen',
         'O1 only: searcher_*.__str__ replaced by a constant (formatting stub); the real ones run in O3',
         'FakeRe for string patterns compiled by expect()']
ASSUMPTIONS = ['transport contract: with timeout=None a read never raises TIMEOUT',
               'pending <=2 chars, <=2 reads of <=2 chars, one text pattern <=2 chars, 7 marker arrangements']

# marker arrangements around one text pattern 's'
SHAPES = [
    ['s'], [EOF, 's'], ['s', TIMEOUT], ['s', EOF, TIMEOUT], [TIMEOUT, 's', EOF], [EOF, TIMEOUT, 's'], ['s', EOF],
]


class Boom(Exception):
    pass


def _lit_pat(s):
    if tracing():
        return LitPat(s)
    import re
    return re.compile(re.escape(s), re.DOTALL)


def _call(sp, entry, lst, s, timeout):
    if entry == 0:
        return sp.expect_exact(lst, timeout=timeout)
    if entry == 1:
        return sp.expect_list([_lit_pat(x) if (x is not EOF and x is not TIMEOUT) else x for x in lst], timeout=timeout)
    if entry == 2:
        return sp.expect_loop(searcher_string(lst), timeout=timeout)
    with fake_re():
        if not tracing():
            import re
            lst = [re.escape(x) if (x is not EOF and x is not TIMEOUT) else x for x in lst]
        return sp.expect(lst, timeout=timeout)


@obligation(params=dict(P0=Text(1), D1=Text(1), D2=Text(0), nd=Int(0, 1), s=Text(1, min=1), shape=Int(0, 6),
                        end=Int(0, 2), tmode=Int(0, 3), entry=Int(0, 3)),
            tags={2: 'match wins (zero reads)', 3: 'match after reads', 4: 'EOF index', 5: 'EOF raised',
                  6: 'TIMEOUT index', 7: 'TIMEOUT raised', 8: 'other error passes through'},
            timeout=400, split=('entry', 'end'),
            thorough=dict(params=dict(P0=Text(2), D1=Text(2), D2=Text(2), nd=Int(0, 2), s=Text(2, min=1)),
                          split=('entry', 'end', 'tmode', 'shape'), timeout=1500),
            note='end to end with symbolic text: every entry point x marker arrangement x end event x timeout '
                 'convention; then a second call after EOF reports EOF again with empty before')
def O1_outcomes(P0, D1, D2, nd, s, shape, end, tmode, entry):
    nd, end, tmode, shape, entry = pick(nd, 0, 2), pick(end, 0, 2), pick(tmode, 0, 3), pick(shape, 0, 6), pick(entry, 0, 3)
    datas = [D1, D2][:nd]
    boom = Boom('transport failure')
    endev = [('eof',), ('timeout',), ('err', boom)][end]
    timeout = [None, 0, 5, -1][tmode]
    if timeout is None and end == 1:
        return SKIP           # a transport cannot time out when asked to wait forever
    sp = ScriptedSpawn([('data', d) for d in datas] + [endev])
    sp.timeout = 7
    sp._before.write(P0)
    sp._buffer.write(P0)
    lst = [s if e == 's' else e for e in SHAPES[shape]]
    pos = SHAPES[shape].index('s')
    eof_i = SHAPES[shape].index(EOF) if EOF in SHAPES[shape] else -1
    to_i = SHAPES[shape].index(TIMEOUT) if TIMEOUT in SHAPES[shape] else -1
    # reference
    pend = P0
    reads_needed = 0
    hit = pend.find(s) >= 0
    for d in datas:
        if hit:
            break
        pend = pend + d
        reads_needed += 1
        hit = pend.find(s) >= 0
    exc = None
    r = None
    with frozen_time(), quiet_searchers():
        try:
            r = _call(sp, entry, lst, s, timeout)
        except Exception as e:
            exc = e
    if hit:
        if exc is not None or r != pos or sp.reads != reads_needed:
            return 0
        if not (sp.after == s) or not (sp.before + sp.after + sp.buffer == pend) or sp.match_index != pos:
            return 0
        return 2 if reads_needed == 0 else 3
    if sp.reads != nd + 1:
        return 0
    if sp.read_args[0][1] != (7 if timeout == -1 else timeout):
        return 0          # the first read is given the whole timeout (-1 = instance default)
    if end == 2:
        # unrelated error: same object comes out, before = pending, after/match cleared
        if exc is not boom:
            return 0
        if not (sp.before == pend) or sp.after is not None or sp.match is not None or sp.match_index is not None:
            return 0
        return 8
    cls, idx = (EOF, eof_i) if end == 0 else (TIMEOUT, to_i)
    if not (sp.before == pend) or sp.after is not cls:
        return 0
    if idx >= 0:
        if exc is not None or r != idx or sp.match is not cls or sp.match_index != idx:
            return 0
        tag = 4 if end == 0 else 6
    else:
        if type(exc) is not cls or sp.match is not None or sp.match_index is not None:
            return 0
        tag = 5 if end == 0 else 7
    if end == 0:
        # pending cleared, and every later call reports EOF again (never blocks: one more read that raises)
        if len(sp.buffer) != 0 or len(sp._before.getvalue()) != 0:
            return 0
        n0 = sp.reads
        exc2 = None
        r2 = None
        with frozen_time(), quiet_searchers():
            try:
                r2 = _call(sp, entry, lst, s, timeout)
            except Exception as e:
                exc2 = e
        if sp.reads != n0 + 1 or len(sp.before) != 0 or sp.after is not EOF:
            return 0
        if idx >= 0:
            if r2 != idx or exc2 is not None:
                return 0
        elif type(exc2) is not EOF:
            return 0
    else:
        # TIMEOUT consumed nothing
        if not (sp._before.getvalue() == pend):
            return 0
    return tag


class _ScriptSearcher:
    """Any searcher: hits at its k-th search call (or never); marker indices arbitrary."""

    def __init__(self, hit_at, eof_i, to_i, a, b):
        self.hit_at, self.eof_index, self.timeout_index, self.a, self.b = hit_at, eof_i, to_i, a, b
        self.n = 0

    def search(self, window, freshlen, searchwindowsize=None):
        k = self.n
        self.n += 1
        if k != self.hit_at:
            return -1
        if not (0 <= self.a <= self.b <= len(window)):
            raise Skip()
        self.start, self.end, self.match = self.a, self.b, 'M'
        return 9

    def __str__(self):
        return 'script-searcher'


@obligation(params=dict(p0=Int(0, 1), n1=Int(0, 1), n2=Int(0, 1), nd=Int(0, 2), hit_at=Int(0, 4), eof_i=Int(-1, 4),
                        to_i=Int(-1, 4), a=Int(), b=Int(), end=Int(0, 2), tmode=Int(0, 3), W=OptInt(1, 3)),
            tags={2: 'match wins (zero reads)', 3: 'match after reads', 4: 'EOF index', 5: 'EOF raised',
                  6: 'TIMEOUT index', 7: 'TIMEOUT raised', 8: 'other error passes through'},
            timeout=300, split=('end', 'tmode'),
            note='core: Expecter.expect_loop (through SpawnBase.expect_loop) with ANY searcher (hit at its k-th '
                 'search or never, arbitrary span, arbitrary marker indices), empty/non-empty concrete chunks, every end '
                 'event and timeout convention; second call after EOF')
def O1_core(p0, n1, n2, nd, hit_at, eof_i, to_i, a, b, end, tmode, W):
    nd, end, tmode, hit_at = pick(nd, 0, 2), pick(end, 0, 2), pick(tmode, 0, 3), pick(hit_at, 0, 4)
    # concrete chunks (content conservation is C01's subject); each may be empty or 2 characters
    P0 = lit('ab' if p0 else '')
    datas = [lit('cd' if n1 else ''), lit('ef' if n2 else '')][:nd]
    boom = Boom('transport failure')
    endev = [('eof',), ('timeout',), ('err', boom)][end]
    timeout = [None, 0, 5, -1][tmode]
    if timeout is None and end == 1:
        return SKIP
    sp = ScriptedSpawn([('data', d) for d in datas] + [endev], searchwindowsize=W)
    sp.timeout = 7
    sp._before.write(P0)
    sp._buffer.write(P0)
    sr = _ScriptSearcher(hit_at, eof_i, to_i, a, b)
    pend = P0
    for d in datas[:hit_at if hit_at < nd else nd]:
        pend = pend + d
    exc = None
    r = None
    with frozen_time():
        try:
            r = sp.expect_loop(sr, timeout=timeout)
        except Skip:
            return SKIP
        except Exception as e:
            exc = e
    if hit_at <= nd:
        if exc is not None or r != 9 or sp.reads != hit_at or sp.match_index != 9 or sp.match != 'M':
            return 0
        if not (sp.before + sp.after + sp.buffer == pend):
            return 0
        return 2 if hit_at == 0 else 3
    if sp.reads != nd + 1 or sp.read_args[0][1] != (7 if timeout == -1 else timeout):
        return 0
    if end == 2:
        if exc is not boom or not (sp.before == pend) or sp.after is not None or sp.match is not None \
                or sp.match_index is not None:
            return 0
        return 8
    cls, idx = (EOF, eof_i) if end == 0 else (TIMEOUT, to_i)
    if not (sp.before == pend) or sp.after is not cls:
        return 0
    if idx >= 0:
        if exc is not None or r != idx or sp.match is not cls or sp.match_index != idx:
            return 0
        tag = 4 if end == 0 else 6
    else:
        if type(exc) is not cls or sp.match is not None or sp.match_index is not None:
            return 0
        tag = 5 if end == 0 else 7
    if end == 0:
        if len(sp.buffer) != 0 or len(sp._before.getvalue()) != 0:
            return 0
        n0 = sp.reads
        exc2 = None
        r2 = None
        sr2 = _ScriptSearcher(9, eof_i, to_i, 0, 0)
        with frozen_time():
            try:
                r2 = sp.expect_loop(sr2, timeout=timeout)
            except Exception as e:
                exc2 = e
        if sp.reads != n0 + 1 or len(sp.before) != 0 or sp.after is not EOF:
            return 0
        if idx >= 0:
            if r2 != idx or exc2 is not None:
                return 0
        elif type(exc2) is not EOF:
            return 0
    elif not (sp._before.getvalue() == pend):
        return 0
    return tag


class _RecExpecter:
    last = None

    def __init__(self, spawn, searcher, searchwindowsize=-1):
        _RecExpecter.last = self
        self.spawn, self.searcher, self.sws = spawn, searcher, searchwindowsize

    def expect_loop(self, timeout=-1):
        self.timeout = timeout
        return 'LOOP-RESULT'


@obligation(params=dict(s=Text(2, min=1), shape=Int(0, 6), tmode=Int(0, 3), entry=Int(0, 3), W=OptInt(1, 4),
                        single=Int(0, 2)),
            tags={2: 'list form', 3: 'single pattern form', 4: 'single EOF/TIMEOUT'}, timeout=200,
            note='entry-point plumbing: expect/expect_exact/expect_list/expect_loop hand Expecter a searcher whose '
                 'text patterns and EOF/TIMEOUT indices sit at their list positions, the resolved timeout (-1 = '
                 'instance default) and the window size; a single pattern equals a one-element list')
def O1_plumbing(s, shape, tmode, entry, W, single):
    import pexpect.spawnbase as SB
    from harness.common import patched
    tmode, shape, entry, single = pick(tmode, 0, 3), pick(shape, 0, 6), pick(entry, 0, 3), pick(single, 0, 2)
    timeout = [None, 0, 5, -1][tmode]
    sp = ScriptedSpawn([])
    sp.timeout = 7
    sp.searchwindowsize = 3
    if single == 0:
        sh = SHAPES[shape]
    elif single == 1:
        sh = ['s']
    else:
        sh = [EOF if shape % 2 else TIMEOUT]
    lst = [s if e == 's' else e for e in sh]
    arg = lst if single == 0 else lst[0]
    if entry == 1:
        arg = [_lit_pat(x) if (x is not EOF and x is not TIMEOUT) else x for x in lst]
    if entry == 2:
        arg = searcher_string(lst)
    kw = {} if W is None else {'searchwindowsize': W}
    with patched(SB, Expecter=_RecExpecter), fake_re():
        if entry == 0:
            r = sp.expect_exact(arg, timeout=timeout, **kw)
        elif entry == 1:
            r = sp.expect_list(arg, timeout=timeout, **kw)
        elif entry == 2:
            r = sp.expect_loop(arg, timeout=timeout, **kw)
        else:
            if not tracing() and single != 2:
                import re
                arg = [re.escape(x) if (x is not EOF and x is not TIMEOUT) else x for x in lst]
                arg = arg if single == 0 else arg[0]
            r = sp.expect(arg, timeout=timeout, **kw)
    rec = _RecExpecter.last
    if r != 'LOOP-RESULT' or rec.spawn is not sp:
        return 0
    if rec.timeout != (7 if timeout == -1 else timeout):
        return 0
    if rec.sws != (-1 if W is None else W):
        return 0
    sr = rec.searcher
    eof_i = sh.index(EOF) if EOF in sh else -1
    to_i = sh.index(TIMEOUT) if TIMEOUT in sh else -1
    if sr.eof_index != eof_i or sr.timeout_index != to_i:
        return 0
    items = sr._strings if hasattr(sr, '_strings') else sr._searches
    want = [k for k, e in enumerate(sh) if e == 's']
    if [k for k, _ in items] != want:
        return 0
    for _, it in items:
        if hasattr(sr, '_strings'):
            if not (it == s):
                return 0
        elif tracing():
            if not (it.pattern == s):
                return 0
    return 2 if single == 0 else (3 if single == 1 else 4)


@obligation(params=dict(S=Text(3), c=Int(0, 3), how=Int(0, 2), size=Int(1, 3)),
            tags={2: 'read()', 3: 'readline()', 4: 'read(size)'}, timeout=200, split=('how',),
            note='read/readline at EOF: return what is pending, then the empty string, never raise')
def O2_read_at_eof(S, c, how, size):
    if c > len(S):
        return SKIP
    sp = ScriptedSpawn([('data', S[:c]), ('data', S[c:]), ('eof',)])
    sp.timeout = 5
    with frozen_time(), fake_re():
        if how == 0:
            a = sp.read()
            b = sp.read()
            if not (a == S) or len(b) != 0:
                return 0
            return 2
        if how == 1:
            out = lit('')
            for _ in range(6):
                line = sp.readline()
                if len(line) == 0:
                    break
                out = out + line
            if not (out == S) or len(sp.readline()) != 0:
                return 0
            return 3
        if tracing() and size != 2:
            return SKIP          # the '.{%d}' pattern text is built concretely: one size per analysis
        out = lit('')
        for _ in range(6):
            piece = sp.read(2 if tracing() else size)
            if len(piece) == 0:
                break
            out = out + piece
        if not (out == S):
            return 0
        return 4


import re as _re
_CP_T = _re.compile('x.y')
_CP_B = _re.compile(b'x.y')


def _mk_obj(cls_k, unicode_mode, before_k, has_pty, closed, cmd_none):
    enc = 'utf-8' if unicode_mode else None
    if cls_k == 0:
        sp = PS.spawn(None, encoding=enc)
        if has_pty:
            class _P:
                flag_eof = False
                pid = 11
                fd = 9
            sp.ptyproc = _P()
            sp.pid = 11
            sp.child_fd = 9
        if not cmd_none:
            sp.command = '/bin/x'
            sp.args = ['/bin/x', 'a']
    elif cls_k == 1:
        from pexpect.pxssh import pxssh
        sp = pxssh(encoding=enc)
    else:
        from pexpect.spawnbase import SpawnBase
        sp = SpawnBase(encoding=enc)
    sp.closed = closed
    txt = 'abc\r\n' if unicode_mode else b'abc\r\n'
    sp.before = [None, txt[:0], txt][before_k]
    sp._before.write(txt)
    sp._buffer.write(txt[2:])
    return sp


@obligation(params=dict(cls_k=Int(0, 2), unicode_mode=Bool(), before_k=Int(0, 2), has_pty=Bool(), closed=Bool(),
                        cmd_none=Bool(), which=Int(0, 1), listed=Bool(), regex=Bool(), witherr=Bool(), empty=Bool()),
            tags={2: 'EOF raised with message', 3: 'TIMEOUT raised with message', 4: 'index returned',
                  5: 'raised, regex searcher message'}, timeout=200,
            note='diagnostic message: in every object state (before login, no ptyproc, closed, before None/empty/'
                 'text, bytes/unicode, either searcher) eof()/timeout() raise exactly EOF/TIMEOUT - str(spawn) and '
                 'str(searcher) never fail.  Concrete text, symbolic structure.')
def O3_message(cls_k, unicode_mode, before_k, has_pty, closed, cmd_none, which, listed, regex, witherr, empty=False):
    sp = _mk_obj(cls_k, unicode_mode, before_k, has_pty, closed, cmd_none)
    pat = 'x.y' if unicode_mode else b'x.y'
    if regex:
        cp = _CP_T if unicode_mode else _CP_B
        lst = [cp, EOF, TIMEOUT] if listed else [cp]
        sr = searcher_re(lst)
    else:
        lst = [pat, EOF, TIMEOUT] if listed else [pat]
        sr = searcher_string(lst)
    if empty:
        # an empty pattern list (expect(None) / expect([]) / expect_exact([]): just wait for EOF or TIMEOUT)
        if listed:
            return SKIP
        sr = searcher_re([]) if regex else searcher_string([])
    ex = Expecter(sp, sr, -1)
    cls = EOF if which == 0 else TIMEOUT
    err = cls('inner') if witherr else None
    try:
        r = ex.eof(err) if which == 0 else ex.timeout(err)
    except Exception as e:
        if listed or type(e) is not cls:
            return 0
        msg = str(e)
        if 'searcher' not in msg:
            return 0
        if witherr and not msg.startswith('inner'):
            return 0
        if regex:
            return 5
        return 2 if which == 0 else 3
    if not listed or r != (1 if which == 0 else 2):
        return 0
    return 4


def dry_runs():
    for entry in range(4):
        for end in range(3):
            yield 'O1_outcomes', dict(P0='p', D1='ab', D2='', nd=1, s='zz', shape=3, end=end, tmode=2, entry=entry)
        yield 'O1_plumbing', dict(s='ab', shape=2, tmode=3, entry=entry, W=None, single=0)
    yield 'O3_message', dict(cls_k=0, unicode_mode=True, before_k=2, has_pty=True, closed=False, cmd_none=False, which=0,
                             listed=False, regex=False, witherr=True)
    yield 'O3_message', dict(cls_k=1, unicode_mode=False, before_k=0, has_pty=False, closed=True, cmd_none=True, which=1,
                             listed=False, regex=True, witherr=False)
    for regex in (False, True):
        yield 'O3_message', dict(cls_k=0, unicode_mode=True, before_k=1, has_pty=True, closed=False, cmd_none=False, which=0,
                                 listed=False, regex=regex, witherr=False, empty=True)
    for how in range(3):
        yield 'O2_read_at_eof', dict(S='a\r\nb', c=2, how=how, size=2)


PROBES = ['expect_core']      # representation probes (harness/probes.py) this harness depends on


MANIFEST_ENTRY = {
    'level_text': 'Bounded symbolic verification of the real expect_loop/eof/timeout/errored code through every '
                  'entry point (expect, expect_exact, expect_list, expect_loop, read, readline): symbolic pending '
                  'text, reads and pattern, seven marker arrangements, end event EOF/TIMEOUT/other error, timeout '
                  'in {None,0,5,-1}; asserts index-or-exact-exception, before/after/match, pending match beats '
                  'EOF/TIMEOUT, EOF stickiness, error pass-through; plus totality of the diagnostic message over '
                  'object states.',
    'level_note': 'Transport is the scripted extension point; per-transport EOF stickiness that rests on the kernel '
                  '(os.read/recv returning EOF again) is an assumption; PopenSpawn\'s own stickiness is in C06.',
}
