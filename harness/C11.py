"""C11 logging fidelity: the log files are an exact transcript.

Over histories of three operations (read / send / sendline / control character) on each
transport, with a symbolic log configuration (logfile, logfile_read, logfile_send each on or
off) and bytes/unicode mode:
  * logfile_read receives exactly the text each read returned, logfile_send exactly the
    (coerced) argument of each send - control characters decoded in unicode mode -, logfile
    both, in the order the operations happened
  * every write is followed by a flush of the same file, before anything is written to the peer
  * the logged value has the string type of the API (str in unicode mode, bytes otherwise)
interact()'s logging: L2_interact (the C15.I3 obligation, run here too).
"""
from symx.spec import obligation, Text, Bytes, Int, OptInt, Bool, SKIP
from symx.bstr import lit, tracing, _isb
from harness.common import Skip, patched, pick, Clock
from harness.io_stubs import FakeDecoder, FakeEncoder, RecFile, Events
from harness.world import STREAM
import pexpect.pty_spawn as PS
import pexpect.spawnbase as SB
import pexpect.fdpexpect as FD
import pexpect.popen_spawn as PO
import pexpect.socket_pexpect as SK
import ptyprocess.ptyprocess as PP

PP._make_eof_intr()      # normally done by PtyProcess.__init__ (instances are built without forking here)

ENCODES = ['pexpect.spawnbase.SpawnBase._log', 'pexpect.spawnbase.SpawnBase.read_nonblocking',
           'pexpect.pty_spawn.spawn.send', 'pexpect.pty_spawn.spawn._log_control', 'pexpect.pty_spawn.spawn.sendcontrol',
           'pexpect.fdpexpect.fdspawn.send', 'pexpect.popen_spawn.PopenSpawn.send',
           'pexpect.popen_spawn.PopenSpawn.read_nonblocking', 'pexpect.socket_pexpect.SocketSpawn.send',
           'pexpect.socket_pexpect.SocketSpawn.read_nonblocking', 'pexpect.pty_spawn.spawn.interact',
           'pexpect.pty_spawn.spawn._spawn__interact_copy']
STUBS = ['RecFile: log file objects appending (file, write|flush, value) to one shared event list; the peer write end '
         'appends to the same list', 'FakeDecoder/FakeEncoder in unicode mode', 'os.read/recv/queue: one fixed chunk per read']
ASSUMPTIONS = ['histories of three operations; payloads <= 2 characters']


class _Peer:
    def __init__(self, ev):
        self.ev = ev
        self.k = 0

    def write(self, fd, data):
        self.ev.ev.append(('peer', 'write', data))
        return len(data)

    def read(self, fd, n):
        self.k += 1
        return STREAM[self.k * 2:self.k * 2 + 2]

    def chunk3(self):
        # the reader thread queues 3-byte chunks while reads ask for 2: every read leaves a carry-over
        self.k += 1
        return STREAM[self.k * 3:self.k * 3 + 3]


class _Sock:
    def __init__(self, peer):
        self.p, self.t = peer, None

    def fileno(self):
        return 7

    def gettimeout(self):
        return self.t

    def settimeout(self, t):
        self.t = t

    def sendall(self, b):
        self.p.write(7, b)

    def send(self, b):
        self.p.write(7, b[:1])
        return 1 if len(b) else 0

    def recv(self, n):
        return self.p.read(7, n)


class _Stdin:
    def __init__(self, peer):
        self.p = peer

    def write(self, b):
        return self.p.write('stdin', b)


class _Q:
    def __init__(self, peer):
        self.p = peer
        self.n = 0

    def get_nowait(self):
        self.n += 1
        if self.n % 2 == 0:
            raise PO.Empty()
        return self.p.chunk3()


class _FO:
    def __init__(self, peer):
        self.p = peer

    def write(self, b):
        return self.p.write('pty', b)

    def flush(self):
        pass


def _mk(tr, uni, peer):
    enc = 'utf-8' if uni else None
    if tr == 0:
        sp = PS.spawn(None, encoding=enc)
        sp.child_fd, sp.closed, sp.delaybeforesend = 7, False, None
        pt = PP.PtyProcess.__new__(PP.PtyProcess)
        pt.fileobj = _FO(peer)
        pt.closed = True
        pt.flag_eof = False
        sp.ptyproc = pt
    elif tr == 1:
        sp = FD.fdspawn.__new__(FD.fdspawn)
        SB.SpawnBase.__init__(sp, encoding=enc)
        sp.child_fd, sp.closed, sp.use_poll = 7, False, False
    elif tr == 2:
        sp = PO.PopenSpawn.__new__(PO.PopenSpawn)
        SB.SpawnBase.__init__(sp, encoding=enc)
        sp.closed = False
        sp._buf = sp.string_type()
        sp._read_queue = _Q(peer)

        class _Proc:
            stdin = _Stdin(peer)
        sp.proc = _Proc()
    else:
        sp = SK.SocketSpawn(_Sock(peer), encoding=enc)
    if uni:
        sp._decoder = FakeDecoder()
        sp._encoder = FakeEncoder()
    return sp


def _history(tr, uni, lf, lr, ls, ops, a, b, ta=None, tb=None):
    ev = Events()
    peer = _Peer(ev)
    sp = _mk(tr, uni, peer)
    if lf:
        sp.logfile = RecFile('all', ev)
    if lr:
        sp.logfile_read = RecFile('r', ev)
    if ls:
        sp.logfile_send = RecFile('s', ev)
    want = []           # expected event skeleton: (file, kind, value-or-None)

    def logged(direction, val):
        if lf:
            want.append(('all', 'write', val))
            want.append(('all', 'flush', None))
        second = ls if direction == 'send' else lr
        if second:
            want.append(('s' if direction == 'send' else 'r', 'write', val))
            want.append(('s' if direction == 'send' else 'r', 'flush', None))
    sel = lambda r, wl, x, t=None: (list(r), [], [])

    class _OS:
        linesep = '\n'
        name = 'posix'
        read = staticmethod(peer.read)
        write = staticmethod(peer.write)
    payloads = [a, b, a]
    given = [a if ta is None else ta, b if tb is None else tb, a if ta is None else ta]   # what the caller passes
    with patched(SB, os=_OS), patched(PS, os=_OS, select_ignore_interrupts=sel), \
            patched(FD, os=_OS, select_ignore_interrupts=sel), patched(PO, time=Clock(0)):
        for k, op in enumerate(ops):
            if op == 0:
                got = sp.read_nonblocking(2, 0) if tr != 0 else SB.SpawnBase.read_nonblocking(sp, 2)
                if not (isinstance(got, str) if uni else isinstance(got, bytes)):
                    return 0
                logged('read', got)
            elif op == 1:
                p = payloads[k]
                sp.send(given[k])
                logged('send', p)
                want.append(('peer', 'write', None))
            elif op == 2:
                p = payloads[k]
                sp.sendline(given[k])
                if tr == 2:
                    logged('send', p)
                    want.append(('peer', 'write', None))
                    logged('send', sp.linesep)
                    want.append(('peer', 'write', None))
                else:
                    logged('send', p + sp.linesep)
                    want.append(('peer', 'write', None))
            else:
                if tr != 0:
                    return 1
                sp.sendcontrol('c')
                want.append(('peer', 'write', None))
                logged('send', '\x03' if uni else b'\x03')
    # the order of log writes relative to the write to the peer is not part of the property
    events = [e for e in ev.ev if e[0] != 'peer']
    want = [e for e in want if e[0] != 'peer']
    if len(events) != len(want):
        return 0
    for got, exp in zip(events, want):
        if got[0] != exp[0] or got[1] != exp[1]:
            return 0
        if exp[1] == 'write' and exp[0] != 'peer':
            v = got[2]
            if uni:
                if not (isinstance(v, str)):
                    return 0
            elif not isinstance(v, bytes):
                return 0
            if not (v == exp[2]):
                return 0
    return 2 + tr


@obligation(params=dict(tr=Int(0, 3), uni=Bool(), lf=Bool(), lr=Bool(), ls=Bool(), o0=Int(0, 3), o1=Int(0, 3), o2=Int(0, 3),
                        a=Text(2), b=Text(2), astext=Bool()),
            tags={2: 'pty', 3: 'fd', 4: 'piped subprocess', 5: 'socket'}, timeout=900, split=('tr', 'uni'),
            thorough=dict(params=dict(a=Text(3), b=Text(3)), timeout=2500, split=('tr', 'uni', 'o0')),
            note='three operations out of read/send/sendline/sendcontrol, symbolic log configuration, symbolic text payloads')
def L1_transcript(tr, uni, lf, lr, ls, o0, o1, o2, a, b, astext=False):
    tr = pick(tr, 0, 3)
    if not uni:
        if not a.isascii() or not b.isascii():
            return SKIP
        ta, tb = a, b
        a, b = a.encode('ascii'), b.encode('ascii')
        if astext:
            # text handed to a bytes-mode object: the peer AND the logs get the encoded bytes (the log has the
            # string type of the API)
            return _history(tr, uni, lf, lr, ls, [pick(o0, 0, 3), pick(o1, 0, 3), pick(o2, 0, 3)], a, b, ta, tb)
    return _history(tr, uni, lf, lr, ls, [pick(o0, 0, 3), pick(o1, 0, 3), pick(o2, 0, 3)], a, b)


@obligation(params=dict(uni=Bool(), lr=Bool(), ls=Bool(), lf=Bool(), o1=Bytes(2, min=1, maxch=128), k1=Bytes(3, min=1, maxch=0x1e)),
            tags={2: 'bytes mode', 3: 'unicode mode', 4: 'bytes mode, escape typed', 5: 'unicode mode, escape typed'}, timeout=300,
            note='logging during interact(): the read log gets what the child wrote, the send log what was typed up to '
                 'the escape character (the escape and what follows are neither sent nor logged), the common log both '
                 'in order, each write flushed, in the string type of the API')
def L2_interact(uni, lr, ls, lf, o1, k1):
    from harness import C15
    return C15.I3_logging(uni, lr, ls, lf, o1, k1)


def dry_runs():
    yield 'L2_interact', dict(uni=True, lr=True, ls=True, lf=True, o1=b'ab', k1=b'x\x1dy')
    yield 'L2_interact', dict(uni=False, lr=True, ls=True, lf=True, o1=b'ab', k1=b'xy')
    for tr in range(4):
        for uni in (False, True):
            yield 'L1_transcript', dict(tr=tr, uni=uni, lf=True, lr=True, ls=True, o0=0, o1=2, o2=1, a='ab', b='c')
    yield 'L1_transcript', dict(tr=0, uni=True, lf=True, lr=False, ls=True, o0=3, o1=0, o2=3, a='ab', b='c')
    for tr in range(4):
        yield 'L1_transcript', dict(tr=tr, uni=False, lf=True, lr=True, ls=True, o0=1, o1=2, o2=0, a='ab', b='c', astext=True)


PROBES = ['transports']      # representation probes (harness/probes.py) this harness depends on


MANIFEST_ENTRY = {
    'level_text': 'Bounded symbolic verification of the real _log and of every transport\'s read and send paths: '
                  'histories of three operations (read, send, sendline, control character) x symbolic log configuration '
                  '(three booleans) x bytes/unicode x four transports, symbolic payloads; the recorded event list (log '
                  'writes, flushes, peer writes in one timeline) must equal the expected transcript exactly, with the '
                  'API string type; plus one read and one typed chunk (escape character anywhere) through interact().',
    'level_note': 'Log files and the peer are recorders; decoder/encoder uninterpreted in unicode mode.',
}
