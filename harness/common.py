"""Shared builders for harnesses."""
from symx.bstr import buffer_type, lit, tracing
from pexpect.spawnbase import SpawnBase


def state_spawn(P, cut, W=None, kind='t', cls=SpawnBase):
    """A spawn object whose pending text is P and whose search buffer is P[cut:]
    (any suffix of the pending text: representation invariant INV0), both stream
    positions at the end, as every expect-family call leaves them."""
    sp = cls(encoding='utf-8' if kind == 't' else None, searchwindowsize=W)
    bt = buffer_type(kind)
    sp.buffer_type = bt
    sp._before = bt()
    sp._buffer = bt()
    sp._before.write(P)
    sp._buffer.write(P[cut:])
    return sp


def empty(kind='t'):
    return lit('' if kind == 't' else b'')
