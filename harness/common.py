"""Shared builders and environment stubs for the expect-core harnesses."""
import re as _real_re

from symx.bstr import buffer_type, lit, tracing, _isb
from pexpect.spawnbase import SpawnBase
from pexpect.exceptions import EOF, TIMEOUT
import pexpect.expect as _E


class Skip(Exception):
    """Raised by a stub when the symbolic script violates the stub's contract
    (= the input is outside the assumed environment); the harness returns SKIP."""


def state_spawn(P, cut, W=None, kind='t', cls=SpawnBase, **kw):
    """A spawn object whose pending text is P and whose search buffer is P[cut:]
    (any suffix of the pending text: representation invariant INV0), both stream
    positions at the end, as every expect-family call leaves them."""
    sp = cls(encoding='utf-8' if kind == 't' else None, searchwindowsize=W, **kw)
    bt = buffer_type(kind)
    sp.buffer_type = bt
    sp._before = bt()
    sp._buffer = bt()
    sp._before.write(P)
    sp._buffer.write(P[cut:])
    return sp


def empty(kind='t'):
    return lit('' if kind == 't' else b'')


def pending(sp):
    return sp._before.getvalue()


def inv0(sp, P):
    """INV0 after a step: pending text is P, the search buffer is a suffix of it, and
    both stream positions are at the end."""
    B = sp._buffer.getvalue()
    nb = len(B)
    nP = len(P)
    if not (sp._before.getvalue() == P):
        return False
    if nb > nP:
        return False
    if not (P[nP - nb:] == B):
        return False
    if sp._before.tell() != nP:
        return False
    if sp._buffer.tell() != nb:
        return False
    return True


class AbsSearcher:
    """Any searcher obeying the searcher contract: a miss, or a span inside the window.
    The outcome is chosen by symbolic script variables."""
    eof_index = -1
    timeout_index = -1

    def __init__(self, hit, a, b, lookback=0, index=0):
        self.hit, self.a, self.b, self.index = hit, a, b, index
        if lookback:
            self.longest_string = lookback
        self.calls = []

    def search(self, window, freshlen, searchwindowsize=None):
        self.calls.append((window, freshlen, searchwindowsize))
        if not self.hit:
            return -1
        if not (0 <= self.a <= self.b <= len(window)):
            raise Skip()
        self.start, self.end = self.a, self.b
        self.match = 'MATCH-OBJECT'
        return self.index

    def __str__(self):
        return 'AbsSearcher'


class _PatBase:
    """common base: isinstance(p, type(re.compile(''))) holds for every fake pattern"""


class FakeMatch:
    def __init__(self, s, e, pat):
        self._s, self._e, self.re = s, e, pat

    def start(self, g=0):
        return self._s

    def end(self, g=0):
        return self._e

    def span(self, g=0):
        return (self._s, self._e)


class AbsPat(_PatBase):
    """A compiled-pattern look-alike whose single search() result is scripted:
    None, or any span with pos <= start <= end <= len(buffer) (CPython's re contract)."""

    def __init__(self, hit, a, b, name='abs'):
        self.hit, self.a, self.b = hit, a, b
        self.pattern = name
        self.flags = 0
        self.calls = []

    def search(self, buf, pos=0, endpos=None):
        self.calls.append((buf, pos))
        if not self.hit:
            return None
        if not (pos <= self.a <= self.b <= len(buf)):
            raise Skip()
        return FakeMatch(self.a, self.b, self)


class LitPat(_PatBase):
    """Escape-free literal pattern: search == find (leftmost at or after pos)."""

    def __init__(self, s):
        self.s = s
        self.pattern = s
        self.flags = 0

    def search(self, buf, pos=0, endpos=None):
        n = buf.find(self.s, pos)
        if n < 0:
            return None
        return FakeMatch(n, n + len(self.s), self)


class EndPat(_PatBase):
    r"""The zero-width end anchor \Z: matches (len, len) from any pos <= len."""
    pattern = r'\Z'
    flags = 0

    def search(self, buf, pos=0, endpos=None):
        n = len(buf)
        if pos > n:
            return None
        return FakeMatch(n, n, self)


class DotN(_PatBase):
    """'.{n}' with DOTALL: the first n characters at pos."""

    def __init__(self, n):
        self.n = n
        self.pattern = '.{%d}' % n
        self.flags = _real_re.DOTALL

    def search(self, buf, pos=0, endpos=None):
        if len(buf) - pos < self.n or self.n < 0:
            return None
        return FakeMatch(pos, pos + self.n, self)


class Clock:
    """Integer-tick virtual clock (replaces the `time` module inside pexpect modules)."""

    def __init__(self, t0=0):
        self.now = t0
        self.sleeps = 0

    def time(self):
        return self.now

    def sleep(self, d):
        if d is not None and d > 0:
            self.now = self.now + d
        self.sleeps += 1


class patched:
    """with patched(module, name=value, ...): temporarily replace module globals."""

    def __init__(self, mod, **kw):
        self.mod, self.kw, self.old = mod, kw, {}

    _MISSING = object()

    def __enter__(self):
        for k, v in self.kw.items():
            self.old[k] = self.mod.__dict__.get(k, self._MISSING) if hasattr(self.mod, '__dict__') else getattr(self.mod, k)
            setattr(self.mod, k, v)
        return self

    def __exit__(self, *a):
        for k, v in self.old.items():
            if v is self._MISSING:
                delattr(self.mod, k)      # the name was a builtin (e.g. open) shadowed in the module
            else:
                setattr(self.mod, k, v)
        return False


class ScriptedSpawn(SpawnBase):
    """SpawnBase whose transport (the documented extension point read_nonblocking) plays a
    script: a list of ('data', text) | ('eof',) | ('timeout',) | ('err', exc)."""

    def __init__(self, script=(), kind='t', **kw):
        SpawnBase.__init__(self, encoding='utf-8' if kind == 't' else None, **kw)
        bt = buffer_type(kind)
        self.buffer_type = bt
        self._before = bt()
        self._buffer = bt()
        self.script = list(script)
        self.reads = 0
        self.delayafterread = None
        self.read_args = []

    def __repr__(self):
        return '<ScriptedSpawn>'

    __str__ = __repr__

    def read_nonblocking(self, size=1, timeout=None):
        self.reads += 1
        self.read_args.append((size, timeout))
        if not self.script:
            if self.flag_eof:
                raise EOF('scripted EOF (sticky)')
            raise TIMEOUT('script exhausted')
        ev = self.script.pop(0)
        if ev[0] == 'data':
            return ev[1]
        if ev[0] == 'eof':
            self.flag_eof = True
            raise EOF('scripted EOF')
        if ev[0] == 'timeout':
            raise TIMEOUT('scripted TIMEOUT')
        raise ev[1]


def frozen_time():
    """Patch pexpect.expect's clock with one that never advances (so only the script
    decides when a call ends)."""
    return patched(_E, time=Clock(0))


class FakeRe:
    """`re` stand-in (installed as pexpect.spawnbase.re while tracing) for the patterns pexpect
    itself compiles from strings: escape-free literals -> LitPat, '.{n}' -> DotN.  Records
    (pattern, flags) of every compile."""
    def __getattr__(self, name):
        # flag constants (DOTALL, IGNORECASE, UNICODE, ...) are the real ones
        if name.isupper():
            return getattr(_real_re, name)
        raise AttributeError(name)

    def __init__(self):
        self.compiled = []

    def compile(self, p, flags=0):
        self.compiled.append((p, flags))
        # CPython's own argument checks
        is_bytes = (p.kind == 'b') if _isb(p) else isinstance(p, bytes)
        if is_bytes and (flags & _real_re.UNICODE):
            raise ValueError('cannot use UNICODE flag with a bytes pattern')
        if not is_bytes and (flags & _real_re.LOCALE):
            raise ValueError('cannot use LOCALE flag with a str pattern')
        if _isb(p) or is_bytes:
            pat = LitPat(p)
            pat.flags = flags
            return pat
        if type(p) is str and p == '':
            return _PatBase()
        if type(p) is str and p.startswith('.{') and p.endswith('}') and p[2:-1].lstrip('-').isdigit():
            pat = DotN(int(p[2:-1]))
            if not (flags & _real_re.DOTALL):
                raise NotImplementedError("FakeRe: '.{n}' without DOTALL")
            return pat
        pat = LitPat(p)
        pat.flags = flags
        return pat




class fake_re:
    """with fake_re(): pexpect.spawnbase.re is FakeRe while tracing (real re in concrete replays)."""

    def __enter__(self):
        import pexpect.spawnbase as SB
        self.SB = SB
        self.old = SB.re
        self.fake = None
        if tracing():
            self.fake = FakeRe()
            SB.re = self.fake
        return self

    def __exit__(self, *a):
        self.SB.re = self.old
        return False


class quiet_searchers:
    """Formatting stub: while tracing, searcher_string/searcher_re.__str__ return a constant, so that
    building an EOF/TIMEOUT message never formats symbolic text (CrossHair would realize it).
    The real __str__ methods are exercised with concrete text by C04.O3."""

    def __enter__(self):
        self.old = (_E.searcher_string.__str__, _E.searcher_re.__str__)
        if tracing():
            _E.searcher_string.__str__ = lambda self: 'searcher_string:<stubbed>'
            _E.searcher_re.__str__ = lambda self: 'searcher_re:<stubbed>'
        return self

    def __exit__(self, *a):
        _E.searcher_string.__str__, _E.searcher_re.__str__ = self.old
        return False


def pick(x, lo, hi):
    """Concretise a small symbolic selector by explicit case split (binary search: log2(n) clean
    forks) so that later list indexing / slicing / range() see a plain int."""
    if x < lo or x > hi:
        raise Skip()
    while lo < hi:
        mid = (lo + hi) // 2
        if x <= mid:
            hi = mid
        else:
            lo = mid + 1
    return lo


class _UntracedRe:
    """the real `re`, but patterns are compiled outside CrossHair's tracing (the pure-Python regex
    compiler would otherwise be executed symbolically, instruction by instruction)"""

    def __getattr__(self, name):
        return getattr(_real_re, name)

    def compile(self, p, flags=0):
        if tracing():
            from crosshair.tracers import NoTracing
            with NoTracing():
                return _real_re.compile(p, flags)
        return _real_re.compile(p, flags)


class untraced_re:
    """with untraced_re(): pexpect.spawnbase.re compiles natively (for harnesses whose text is concrete)"""

    def __enter__(self):
        import pexpect.spawnbase as SB
        self.SB, self.old = SB, SB.re
        SB.re = _UntracedRe()
        return self

    def __exit__(self, *a):
        self.SB.re = self.old
        return False
