"""C09 exit status truth: once the death has been observed, exactly one of exitstatus /
signalstatus is set and equals the child's real fate, status decodes to the same, terminated
is true and the values never change; wait() returns the exit code; PopenSpawn.wait sign
mapping; run(..., withexitstatus=True)."""
from symx.spec import obligation, Int, OptInt, Bool, SKIP
from harness.common import Skip, patched, pick, Clock
from harness.world import ProcWorld, Hang, make_pty_spawn, REAPED, ZOMBIE, disarm
from pexpect.exceptions import EOF, TIMEOUT, ExceptionPexpect
import pexpect.pty_spawn as PS
import pexpect.popen_spawn as PO
import pexpect.spawnbase as SB
import sys as _sys
import pexpect.pty_spawn  # noqa
RUN = _sys.modules['pexpect.run']
import ptyprocess.ptyprocess as PP

USES_BSTR = False
ENCODES = ['pexpect.pty_spawn.spawn.isalive', 'pexpect.pty_spawn.spawn.wait', 'pexpect.pty_spawn.spawn.close',
           'pexpect.pty_spawn.spawn.terminate', 'pexpect.pty_spawn.spawn.kill', 'pexpect.popen_spawn.PopenSpawn.wait',
           'pexpect.run.run', 'ptyprocess.ptyprocess.PtyProcess.isalive', 'ptyprocess.ptyprocess.PtyProcess.wait',
           'ptyprocess.ptyprocess.PtyProcess.close', 'ptyprocess.ptyprocess.PtyProcess.terminate']
STUBS = ['ProcWorld: one child, POSIX signal delivery, waitpid/kill/close, arithmetic W* macros (harness/world.py)',
         'time.sleep in pexpect.pty_spawn and ptyprocess: virtual clock']
ASSUMPTIONS = ['A4: the kernel reports the wait status ProcWorld says (exit code << 8, or signal | core bit)',
               'the child does not get stopped by a third party (WIFSTOPPED statuses are never reported without WUNTRACED)',
               '<= 3 observations per history; exit codes 0..255, signals 1..64, core bit']


def _truth_ok(sp, w):
    """spawn's recorded fate == the world's wait status"""
    s = w.status
    if sp.status != s or not sp.terminated:
        return False
    if s % 128 == 0:
        return sp.exitstatus == (s // 256) % 256 and sp.signalstatus is None
    return sp.exitstatus is None and sp.signalstatus == s % 128


@obligation(params=dict(code=Int(0, 255), sig=Int(1, 64), core=Bool(), signaled=Bool(), exit_at=OptInt(0, 12),
                        ign_hup=Bool(), ign_int=Bool(), o0=Int(0, 5), o1=Int(0, 5), o2=Int(0, 5)),
            tags={2: 'exited by itself, status read', 3: 'killed by our signal, status read', 4: 'still running',
                  5: 'observation would wait forever (wait() on a child that never exits)',
                  6: 'terminate() escalated through the signals', 7: 'ptyprocess.terminate() from close()'},
            timeout=600, split=('o0',),
            note='every order of up to three observations from {isalive, wait, close(), terminate(False), '
                 'terminate(True), read-to-EOF then isalive} x every exit code/signal/core bit x exit point')
def S1_pty_fate(code, sig, core, signaled, exit_at, ign_hup, ign_int, o0, o1, o2, o3=None):
    status = (sig + (128 if core else 0)) if signaled else code * 256
    if signaled and sig == 127 - 0 and False:
        return SKIP
    w = ProcWorld(status, exit_at, ign_hup, ign_int, False)
    sp, pt = make_pty_spawn(w)
    clk = Clock(0)
    seen = False
    frozen = None
    tag = 4
    with patched(PP, os=w, time=clk), patched(PS, os=w, time=clk), patched(SB, os=w), disarm(pt):
        seq = [pick(o0, 0, 5), pick(o1, 0, 5), pick(o2, 0, 5)] + ([pick(o3, 0, 5)] if o3 is not None else [])
        for o in seq:
            try:
                if o == 0:
                    alive = sp.isalive()
                    if alive and w.state == REAPED:
                        return 0                     # a reaped child reported alive
                    if not alive:
                        seen = True
                elif o == 1:
                    r = sp.wait()
                    seen = True
                    if r != sp.exitstatus:
                        return 0
                elif o == 2:
                    sp.close()
                    seen = True
                elif o == 3:
                    if sp.terminate(False):
                        seen = True
                elif o == 4:
                    if not sp.terminate(True):
                        return 0
                    seen = True
                else:
                    # a read that hits EOF flags it, then the liveness check uses the blocking wait
                    if sp.closed:
                        continue
                    sp.flag_eof = True
                    if not sp.isalive():
                        seen = True
            except Hang:
                return 5 if w.state not in (ZOMBIE, REAPED) else 0
            except ExceptionPexpect:
                # close(force=False) is not used here; any pexpect error on these paths is a defect
                return 0
            if seen:
                if w.state != REAPED:
                    return 0                         # said dead while not reaped
                if not _truth_ok(sp, w):
                    return 0
                now = (sp.status, sp.exitstatus, sp.signalstatus, sp.terminated)
                if frozen is not None and now != frozen:
                    return 0                         # values changed after they were first set
                frozen = now
                tag = 2 if w.status == status and (exit_at is not None) else 3
                if tag == 3 and o in (3, 4) and len(w.sent) >= 2:
                    tag = 6
                if tag == 3 and o == 2 and len(w.sent) >= 1:
                    tag = 7
            elif sp.terminated:
                return 0
    return tag


@obligation(params=dict(code=Int(0, 255), sig=Int(1, 64), core=Bool(), signaled=Bool(), exit_at=OptInt(0, 16),
                        ign_hup=Bool(), ign_int=Bool(), o0=Int(0, 5), o1=Int(0, 5), o2=Int(0, 5), o3=Int(0, 5)),
            tags={2: 'exited by itself, status read', 3: 'killed by our signal, status read', 4: 'still running'},
            timeout=3000, split=('o0', 'o1'), tiers=('thorough',),
            note='as S1 with four observations')
def S1_pty_fate4(code, sig, core, signaled, exit_at, ign_hup, ign_int, o0, o1, o2, o3):
    r = S1_pty_fate(code, sig, core, signaled, exit_at, ign_hup, ign_int, o0, o1, o2, o3)
    return 3 if r in (6, 7) else (1 if r == 5 else r)


@obligation(params=dict(rc=Int(-64, 255)), tags={2: 'exit code', 3: 'signal'}, timeout=60,
            note='PopenSpawn.wait: non-negative return code -> exitstatus, negative -> signalstatus = -rc; returns rc')
def S2_popen_wait(rc):
    sp = PO.PopenSpawn.__new__(PO.PopenSpawn)
    SB.SpawnBase.__init__(sp)

    class _Proc:
        def wait(self_inner):
            return rc
    sp.proc = _Proc()
    r = sp.wait()
    if r != rc or not sp.terminated:
        return 0
    if rc >= 0:
        return 2 if (sp.exitstatus == rc and sp.signalstatus is None) else 0
    return 3 if (sp.exitstatus is None and sp.signalstatus == -rc) else 0


class _RunChild(SB.SpawnBase):
    """what run() needs from spawn: expect raising EOF at once, close() reaping through the world"""
    made = None

    def __init__(self, command, **kw):
        SB.SpawnBase.__init__(self, **{k: v for k, v in kw.items() if k in ('timeout', 'maxread', 'logfile', 'encoding')})
        _RunChild.made = self
        self.kw = kw
        self.before = b''

    def expect(self, patterns, **kw):
        self.before = b'output'
        raise EOF('done')


@obligation(params=dict(code=Int(0, 255), sig=Int(1, 64), signaled=Bool(), withexit=Bool(), tneg=Bool(),
                        exit_at=OptInt(0, 6)),
            tags={2: 'tuple with exit status', 3: 'plain output'}, timeout=120,
            note='run(..., withexitstatus): closes the child and returns the exitstatus that close() recorded')
def S3_run_exitstatus(code, sig, signaled, withexit, tneg, exit_at):
    status = sig if signaled else code * 256
    w = ProcWorld(status, exit_at, False, False, False)
    clk = Clock(0)

    def factory(command, **kw):
        sp, pt = make_pty_spawn(w, **{k: v for k, v in kw.items() if k in ('timeout', 'maxread', 'logfile', 'encoding')})
        sp.expect = lambda patterns, **k: (_ for _ in ()).throw(EOF('done'))
        sp.before = b'output'
        factory.sp, factory.pt = sp, pt
        return sp
    with patched(RUN, spawn=factory), patched(PP, os=w, time=clk), patched(PS, os=w, time=clk):
        try:
            r = RUN.run('cmd', withexitstatus=withexit, timeout=-1 if tneg else 5)
        finally:
            factory.pt.closed = True
    sp = factory.sp
    if withexit:
        if not isinstance(r, tuple) or r[0] != b'output':
            return 0
        if w.state != REAPED or not sp.closed:
            return 0
        want = (w.status // 256) % 256 if w.status % 128 == 0 else None   # the real fate
        if r[1] != want:
            return 0
        return 2
    return 3 if r == b'output' else 0


def dry_runs():
    for o0 in range(6):
        yield 'S1_pty_fate', dict(code=3, sig=9, core=False, signaled=False, exit_at=1, ign_hup=False, ign_int=False,
                                  o0=o0, o1=1, o2=0)
        yield 'S1_pty_fate', dict(code=3, sig=9, core=True, signaled=True, exit_at=None, ign_hup=True, ign_int=True,
                                  o0=4, o1=o0, o2=0)
    yield 'S1_pty_fate', dict(code=3, sig=9, core=False, signaled=False, exit_at=None, ign_hup=True, ign_int=True, o0=2, o1=0, o2=1)
    yield 'S2_popen_wait', dict(rc=-9)
    yield 'S3_run_exitstatus', dict(code=5, sig=1, signaled=False, withexit=True, tneg=False, exit_at=0)


PROBES = ['lifecycle']      # representation probes (harness/probes.py) this harness depends on


MANIFEST_ENTRY = {
    'level_text': 'Bounded symbolic verification through the real pexpect.spawn isalive/wait/close/terminate/kill AND '
                  'the real ptyprocess isalive/wait/close/terminate over a symbolic process world: the wait status '
                  '(all 256 exit codes, signals 1..64, core bit - arithmetic W* macros, no enumeration), the point at '
                  'which the child exits, its HUP/INT dispositions and every order of three observations are '
                  'symbolic; asserts exactly-one-of, equality with the real fate, terminated, stability; plus '
                  'PopenSpawn.wait sign mapping for every return code and run(withexitstatus).',
    'level_note': 'The kernel is ProcWorld (A4). Histories of 3 observations; longer ones and stopped children are '
                  'in C10 / outside.',
}
