"""C15 interact(): a transparent two-way pipe until the escape character.

The copy loop of the real spawn.interact() runs over scripted select/os.read/os.write/tty:
  * keystrokes: up to two reads of symbolic bytes (all byte values), escape character at any
    position(s) - absent, first, middle, last, repeated
  * child output: up to two reads of symbolic bytes, then the child exits (EIO) or keeps running
  * the write towards the child may be partial (returns 1..len)
Checked: the child receives exactly the typed bytes that precede the FIRST escape character
(through input_filter), stdout receives the pending buffer followed by exactly the child's bytes
(through output_filter), the saved terminal mode is restored on every exit path - including an
exception from the copy loop - and interact returns when the child is gone.
"""
from symx.spec import obligation, Text, Bytes, Int, OptInt, Bool, SKIP
from symx.bstr import lit, tracing, _isb, buffer_type
from harness.common import Skip, patched, pick
from harness.io_stubs import RecFile, Events
import pexpect.pty_spawn as PS

ENCODES = ['pexpect.pty_spawn.spawn.interact', 'pexpect.pty_spawn.spawn._spawn__interact_copy',
           'pexpect.pty_spawn.spawn._spawn__interact_writen', 'pexpect.pty_spawn.spawn._spawn__interact_read']
STUBS = ['select_ignore_interrupts/poll_ignore_interrupts: a script decides which of (child, stdin) is readable per turn',
         'os.read/os.write on fds 0, 1 and the child fd: recorders; the write to the child may be partial',
         'tty.tcgetattr/setraw/tcsetattr: recorded', 'spawn.isalive: true until the scripted child exit']
ASSUMPTIONS = ['a blocking os.write to stdout is complete (A3)', '<= 2 reads per direction, <= 3 bytes per read',
               'escape character: the default Ctrl-] (0x1d) in I1/I3; I1b also chr(0x1d), chr(0xff), chr(0x80) given explicitly']
ESC = 0x1d
ESCAPES = [0x1d, 0x1d, 0xff, 0x80]      # default; the same given explicitly; two escape bytes above 0x7f


class _Tty:
    TCSAFLUSH = 2

    def __init__(self):
        self.calls = []

    def tcgetattr(self, fd):
        self.calls.append(('get', fd))
        return 'SAVED-MODE'

    def setraw(self, fd):
        self.calls.append(('raw', fd))

    def tcsetattr(self, fd, when, mode):
        self.calls.append(('set', fd, when, mode))


class _World:
    """turn k: ready[k] says which descriptors the select reports (1 child, 2 stdin, 3 both)"""

    def __init__(self, ready, keys, outs, child_exits, partial, boom_at):
        self.ready, self.keys, self.outs = list(ready), list(keys), list(outs)
        self.child_exits, self.partial, self.boom_at = child_exits, partial, boom_at
        self.to_child, self.to_stdout = [], []
        self.turn = 0
        self.alive = True
        self.writes = 0

    def select(self):
        if self.turn >= len(self.ready):
            # nothing more will ever happen: the child goes away (otherwise the loop would wait forever)
            self.alive = False
            return []
        r = self.ready[self.turn]
        self.turn += 1
        out = []
        if r & 1:
            out.append(7)
        if r & 2:
            out.append(0)
        return out

    def read(self, fd, n):
        import errno
        if fd == 7:
            if self.outs:
                return self.outs.pop(0)
            if self.child_exits:
                self.alive = False
                raise OSError(errno.EIO, 'EIO')
            raise Skip()            # select reported the child readable with nothing to read: not a valid script
        if self.keys:
            return self.keys.pop(0)
        raise Skip()

    def write(self, fd, data):
        self.writes += 1
        if self.boom_at == self.writes:
            raise KeyboardInterrupt()
        if fd == 1:
            self.to_stdout.append(data)
            return len(data)
        n = len(data)
        if self.partial and n > 1:
            n = 1                   # the kernel took only one byte: the write-all loop must go on
        self.to_child.append(data[:n])
        return n


def _cat(parts):
    out = lit(b'')
    for p in parts:
        out = out + p
    return out


@obligation(params=dict(k1=Bytes(2), k2=Bytes(2), o1=Bytes(2, min=1), o2=Bytes(1, min=1), nk=Int(0, 2), no=Int(0, 2),
                        r0=Int(1, 3), r1=Int(1, 3), r2=Int(1, 3), r3=Int(0, 0), exits=Bool(), partial=Bool(),
                        pend=Bytes(1), poll=Bool(), filt=Bool(), drop=Int(0, 2)),
            tags={2: 'escape typed', 3: 'child exited', 4: 'escape typed twice in one read', 5: 'nothing more to copy'},
            timeout=900, split=('nk', 'no', 'r0'), twin_timeout=40,
            thorough=dict(params=dict(k1=Bytes(3), k2=Bytes(3), o1=Bytes(3, min=1), o2=Bytes(3, min=1), r3=Int(1, 3),
                                      pend=Bytes(2)), timeout=3000, split=('nk', 'no', 'r0', 'r1'), twin_timeout=120),
            note='bytes mode: symbolic keystrokes and child output, readiness script of four turns')
def I1_copy(k1, k2, o1, o2, nk, no, r0, r1, r2, r3, exits, partial, pend, poll, filt, drop=0, esc=0, fk=0):
    nk, no = pick(nk, 0, 2), pick(no, 0, 2)
    keys = [k1, k2][:nk]
    outs = [o1, o2][:no]
    for k in keys:
        if len(k) == 0:
            return SKIP             # a read on a ready tty returns at least one byte
    turns = [pick(r0, 1, 3), pick(r1, 1, 3), pick(r2, 1, 3)] + ([pick(r3, 1, 3)] if r3 else [])
    w = _World(turns, keys, outs, exits, partial, 0)
    sp = PS.spawn(None)
    sp.child_fd, sp.closed, sp.use_poll = 7, False, poll
    bt = buffer_type('b')
    sp.buffer_type = bt
    sp._buffer = bt()
    sp._buffer.write(pend)
    flushed = []
    sp.write_to_stdout = lambda b: flushed.append(b)

    class _SO:
        def flush(self):
            pass
    sp.stdout = _SO()
    sp.isalive = lambda: w.alive
    tty = _Tty()
    sel = lambda r, wl, x, t=None: (w.select(), [], [])
    pol = lambda fds, t=None: w.select()

    class _OS:
        read = staticmethod(w.read)
        write = staticmethod(w.write)
    upper = (lambda b: b) if not filt else None
    seen_in, seen_out = [], []

    # input filter kinds: 0 passes keystrokes through; 1 maps Ctrl-Q (0x11) to the escape character (an extra quit
    # key); 2 replaces the escape character by 'G' (the inner application needs that key).  The documentation says
    # the filter runs BEFORE the escape character is looked for.
    fk = pick(fk, 0, 2) if filt else 0

    def fin(b):
        seen_in.append(b)
        if fk == 1:
            return b.replace(b'\x11', bytes([ESCAPES[esc]]))
        if fk == 2:
            return b.replace(bytes([ESCAPES[esc]]), b'G')
        return b

    drop = pick(drop, 0, 2) if filt else 0

    def fout(b):
        seen_out.append(b)
        if drop and len(seen_out) == drop:
            return b[:0]                 # the filter swallows this whole chunk (e.g. strips a lone BEL)
        return b
    # the escape character: the default Ctrl-], or a caller-chosen one given as str - chr(N) stands for the
    # keystroke byte N, also above 0x7f
    esc = pick(esc, 0, 3)
    ESC = ESCAPES[esc]
    kw = {} if esc == 0 else {'escape_character': chr(ESC)}
    with patched(PS, os=_OS, tty=tty, select_ignore_interrupts=sel, poll_ignore_interrupts=pol):
        try:
            sp.interact(input_filter=fin if filt else None, output_filter=fout if filt else None, **kw)
        except Skip:
            return SKIP
    # terminal mode saved, raw, restored - in that order, exactly once each
    if tty.calls != [('get', 0), ('raw', 0), ('set', 0, 2, 'SAVED-MODE')]:
        return 0
    # pending output first
    if len(flushed) != 1 or not (flushed[0] == pend) or len(sp.buffer) != 0:
        return 0
    # reference: walk the same readiness script
    exp_child, exp_out = lit(b''), lit(b'')
    ks, os_ = list(keys), list(outs)
    escaped = False
    twice = False
    nout = 0
    for r in w.ready[:w.turn]:
        if r & 1:
            if os_:
                chunk = os_.pop(0)
                nout += 1
                if not (drop and nout == drop):
                    exp_out = exp_out + chunk
            else:
                break               # EIO: the loop ended here
        if r & 2:
            k = ks.pop(0)
            if fk == 1:
                k = k.replace(b'\x11', bytes([ESC]))
            elif fk == 2:
                k = k.replace(bytes([ESC]), b'G')
            i = k.find(bytes([ESC]))
            if i >= 0:
                exp_child = exp_child + k[:i]
                escaped = True
                if k.find(bytes([ESC]), i + 1) >= 0:
                    twice = True
                break
            exp_child = exp_child + k
    if not (_cat(w.to_child) == exp_child):
        return 0
    if not (_cat(w.to_stdout) == exp_out):
        return 0
    if filt and not drop:
        if not (_cat(seen_out) == exp_out):
            return 0
    if escaped:
        return 4 if twice else 2
    if not w.alive and exits and not os_:
        return 3
    return 5


@obligation(params=dict(k1=Bytes(4, min=1), k2=Bytes(1, min=1), partial=Bool(), pend=Bytes(1), poll=Bool(), filt=Bool(), two=Bool(),
                        esc=Int(0, 3), fk=Int(0, 2)),
            tags={2: 'escape typed', 4: 'escape typed twice in one read', 3: 'child exited'}, timeout=600, split=('two', 'esc', 'fk'),
            note='(fk: input filter passes through / turns Ctrl-Q into the escape character / replaces the escape character; esc: default escape / the same given explicitly / chr(0xff) / chr(0x80)) one longer keyboard read (<= 4 bytes, escape anywhere) optionally preceded by a one-byte read, with '
                 'partial writes towards the child: the bytes before the escape reach the child completely '
                 '(added after a seeded change that wrote that prefix with a single os.write was missed at 2-byte reads)')
def I1b_escape_prefix(k1, k2, partial, pend, poll, filt, two, esc=0, fk=0):
    if two:
        return I1_copy(k2, k1, lit(b'x'), lit(b'y'), 2, 0, 2, 2, 1, 0, True, partial, pend, poll, filt, 0, esc, fk)
    return I1_copy(k1, k2, lit(b'x'), lit(b'y'), 1, 0, 2, 1, 1, 0, True, partial, pend, poll, filt, 0, esc, fk)


@obligation(params=dict(boom=Int(1, 3), o1=Bytes(2, min=1), k1=Bytes(2, min=1)), tags={2: 'mode restored after an exception'},
            timeout=200,
            note='an exception raised inside the copy loop (here: from the n-th os.write) still restores the saved mode')
def I2_restore_on_error(boom, o1, k1):
    w = _World([3, 3, 3], [k1, k1], [o1, o1], False, False, pick(boom, 1, 3))
    sp = PS.spawn(None)
    sp.child_fd, sp.closed, sp.use_poll = 7, False, False
    sp.write_to_stdout = lambda b: None

    class _SO:
        def flush(self):
            pass
    sp.stdout = _SO()
    sp.isalive = lambda: w.alive
    tty = _Tty()
    sel = lambda r, wl, x, t=None: (w.select(), [], [])

    class _OS:
        read = staticmethod(w.read)
        write = staticmethod(w.write)
    raised = False
    with patched(PS, os=_OS, tty=tty, select_ignore_interrupts=sel):
        try:
            sp.interact()
        except KeyboardInterrupt:
            raised = True
        except Skip:
            return SKIP
    if raised and tty.calls[-1] != ('set', 0, 2, 'SAVED-MODE'):
        return 0
    if not raised and tty.calls[-1][0] != 'set':
        return 0
    return 2


@obligation(params=dict(uni=Bool(), lr=Bool(), ls=Bool(), lf=Bool(), o1=Bytes(2, min=1, maxch=128), k1=Bytes(3, min=1, maxch=0x1e)),
            tags={2: 'bytes mode', 3: 'unicode mode', 4: 'bytes mode, escape typed', 5: 'unicode mode, escape typed'}, timeout=300,
            note='logging during interact: the read log gets what the child wrote, the send log what was typed, the '
                 'common log both in order, each write flushed, in the string type of the API (C11)')
def I3_logging(uni, lr, ls, lf, o1, k1):
    w = _World([1, 2], [k1], [o1], False, False, 0)
    sp = PS.spawn(None, encoding='utf-8' if uni else None)
    sp.child_fd, sp.closed, sp.use_poll = 7, False, False
    sp.write_to_stdout = lambda b: None

    class _SO:
        def flush(self):
            pass
    sp.stdout = _SO()
    sp.isalive = lambda: w.alive
    ev = Events()
    if lf:
        sp.logfile = RecFile('all', ev)
    if lr:
        sp.logfile_read = RecFile('r', ev)
    if ls:
        sp.logfile_send = RecFile('s', ev)
    tty = _Tty()
    sel = lambda r, wl, x, t=None: (w.select(), [], [])

    class _OS:
        read = staticmethod(w.read)
        write = staticmethod(w.write)
    with patched(PS, os=_OS, tty=tty, select_ignore_interrupts=sel):
        try:
            sp.interact()
        except Skip:
            return SKIP
    want = []
    # what was typed up to the first escape character is what is sent - and logged; the escape and the rest are not
    i = k1.find(bytes([ESC]))
    sent = k1 if i < 0 else k1[:i]
    for name, on, val in (('all', lf, o1), ('r', lr, o1), ('all', lf, sent), ('s', ls, sent)):
        if val is sent and len(sent) == 0:
            continue
        if on:
            want.append((name, 'write', val))
            want.append((name, 'flush', None))
    if len(ev.ev) != len(want):
        return 0
    for got, exp in zip(ev.ev, want):
        if got[0] != exp[0] or got[1] != exp[1]:
            return 0
        if exp[1] == 'write':
            v = got[2]
            if uni:
                # the log gets the string type of the API: text
                if not isinstance(v, str) or not (v == exp[2].decode('ascii')):
                    return 0
            elif not isinstance(v, bytes) or not (v == exp[2]):
                return 0
    if i >= 0:
        return 5 if uni else 4
    return 3 if uni else 2


def dry_runs():
    yield 'I1_copy', dict(k1=b'ab\x1d', k2=b'zz', o1=b'xy', o2=b'q', nk=2, no=2, r0=1, r1=2, r2=3, r3=3, exits=True,
                          partial=True, pend=b'P', poll=False, filt=True, drop=1)
    yield 'I1_copy', dict(k1=b'a\x1db\x1dc', k2=b'zz', o1=b'xy', o2=b'q', nk=1, no=1, r0=3, r1=1, r2=1, r3=0, exits=True,
                          partial=False, pend=b'', poll=True, filt=False)
    yield 'I2_restore_on_error', dict(boom=2, o1=b'x', k1=b'y')
    # a witness for 'nothing more to copy' inside the thorough domain (four turns consuming exactly two reads each way)
    yield 'I1_copy', dict(k1=b'ab', k2=b'c', o1=b'x', o2=b'y', nk=2, no=2, r0=1, r1=2, r2=1, r3=2, exits=False,
                          partial=False, pend=b'', poll=False, filt=False, drop=0)
    for esc, e in enumerate((b'\x1d', b'\x1d', b'\xff', b'\x80')):
        yield 'I1b_escape_prefix', dict(k1=b'ab' + e + b'c', k2=b'q', partial=True, pend=b'', poll=False, filt=False, two=False, esc=esc)
        yield 'I1b_escape_prefix', dict(k1=b'\xc3' + e, k2=b'q', partial=False, pend=b'p', poll=True, filt=True, two=True, esc=esc)
    yield 'I3_logging', dict(uni=False, lr=True, ls=True, lf=True, o1=b'o', k1=b'k')


PROBES = ['transports']      # representation probes (harness/probes.py) this harness depends on


MANIFEST_ENTRY = {
    'level_text': 'Bounded symbolic verification of the real interact()/__interact_copy/__interact_writen over scripted '
                  'select/os/tty: symbolic keystrokes and child output (all byte values, <=3 bytes x 2 reads each way), '
                  'escape character at any positions, four readiness turns, partial writes to the child, filters, child '
                  'exit; asserts exact delivery both ways, cut at the FIRST escape, pending-buffer flush, terminal mode '
                  'restoration on every exit path incl. an exception, and the interact() logging rules.',
    'level_note': 'stdout writes are complete (A3); real tty line discipline is outside the claim.',
}
