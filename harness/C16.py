"""C16 REPLWrapper: each command returns exactly its own output.

A scripted REPL sits behind the real REPLWrapper and the real expect_exact machinery: after
every line it receives it "prints" that line's output (a symbolic string that does not
contain a prompt) followed by the prompt or - for an incomplete construct - the continuation
prompt, delivered in two reads cut at a symbolic position.  Checked: run_command returns
exactly the command's output(s); the wrapper stays usable (the next command returns its own
output only); an incomplete command is interrupted, re-synchronised once, raises ValueError,
and does not disturb the next command.
"""
from symx.spec import obligation, Text, Int, OptInt, Bool, SKIP
from symx.bstr import lit, tracing, buffer_type, _isb
from harness.common import Skip, patched, pick, ScriptedSpawn, frozen_time
from pexpect.exceptions import EOF, TIMEOUT
import pexpect.replwrap as RW

ENCODES = ['pexpect.replwrap.REPLWrapper.__init__', 'pexpect.replwrap.REPLWrapper.run_command',
           'pexpect._async_w_await.repl_run_command_async', 'pexpect._async_w_await.expect_async',
           'pexpect.replwrap.REPLWrapper._expect_prompt',
           'pexpect.spawnbase.SpawnBase.expect_exact', 'pexpect.expect.searcher_string.search']
STUBS = ['the REPL: a scripted transport that answers each sendline with output + prompt in two reads; kill() recorded',
         'pexpect.expect.time frozen', 'io.StringIO -> PyBuf']
ASSUMPTIONS = ['A6: the REPL prints the prompt after each complete command and the continuation prompt otherwise',
               'outputs do not contain the prompt strings (precondition)', 'prompts are 2 characters; outputs <= 3 '
               'characters (any code points); two commands per history']
P1, P2 = '>>', '..'


class Repl(ScriptedSpawn):
    """plays [(output, kind)] per received line: kind 0 -> prompt follows, 1 -> continuation prompt follows"""

    def __init__(self, answers, cuts):
        ScriptedSpawn.__init__(self, [], kind='t')
        self.answers, self.cuts = list(answers), list(cuts)
        self.lines, self.kills = [], []
        self.tmos = []                   # the timeout handed to every prompt wait
        self.echo = False
        self.timeout = 5

    def expect_exact(self, pattern_list, timeout=-1, searchwindowsize=-1, async_=False, **kw):
        self.tmos.append(timeout)
        return ScriptedSpawn.expect_exact(self, pattern_list, timeout=timeout, searchwindowsize=searchwindowsize,
                                          async_=async_, **kw)

    def sendline(self, s=''):
        self.lines.append(s)
        if not self.answers:
            return
        out, kind = self.answers.pop(0)
        c = self.cuts.pop(0) if self.cuts else 0
        full = out + (P2 if kind else P1)
        if c > len(full):
            raise Skip()
        if c > 0:
            self.script.append(('data', full[:c]))
        if c < len(full):
            self.script.append(('data', full[c:]))

    def kill(self, sig):
        self.kills.append(sig)
        # the interrupted REPL drops the partial input and shows a fresh prompt
        self.script.append(('data', lit(P1)))


def _clean(x):
    return x.find(P1) < 0 and x.find(P2) < 0 and (x + P1[0]).find(P1) < 0 and (x + P2[0]).find(P2) < 0


TMOS = [-1, 17, None]


def _tmos_ok(child, shape, T):
    """every wait for a prompt gets the caller's timeout; only the re-synchronisation after incomplete input uses 1 s"""
    want = {0: [T, T], 1: [T, T, T], 3: [T, T, T], 2: [T, 1, T], 4: [T, T, T]}[shape]
    return child.tmos == want


@obligation(params=dict(o1=Text(2), o2=Text(2), o3=Text(2), c1=Int(0, 3), c2=Int(0, 3), c3=Int(0, 3), shape=Int(0, 4)),
            tags={2: 'two single-line commands', 3: 'a two-line command then a single-line one',
                  4: 'incomplete input: ValueError, then a normal command', 5: 'three lines, the middle one empty',
                  6: 'a command ending with a newline (an extra empty line is sent)'},
            timeout=900, split=('shape', 'c1'), twin_timeout=150,
            thorough=dict(params=dict(o1=Text(3), o2=Text(3), o3=Text(3), c1=Int(0, 5), c2=Int(0, 5), c3=Int(0, 5)),
                          timeout=3000, split=('shape', 'c1', 'c2')),
            note='shape 0: cmd; cmd   1: two-line cmd; cmd   2: incomplete cmd (continuation prompt) ; cmd   3: three lines   4: trailing newline.  Cut positions: output + prompt is at most 4 characters, so 1..3 are all interior cuts (0 = delivered whole)')
def Q1_commands(o1, o2, o3, c1, c2, c3, shape, tmo=None):
    shape = pick(shape, 0, 4)
    # the timeout convention the caller uses (-1 / a number / None) varies with the first cut position
    T = TMOS[(pick(c1, 0, 7) if tmo is None else tmo) % 3]
    for o in (o1, o2, o3):
        if not _clean(o):
            return SKIP
    if shape == 0:
        answers = [(o1, 0), (o2, 0)]
    elif shape == 1:
        answers = [(o1, 1), (o2, 0), (o3, 0)]
    elif shape == 3:
        answers = [(o1, 1), (o2, 1), (o3, 0)]          # 'a', '', 'b': the empty line is input like any other
    elif shape == 4:
        answers = [(o1, 1), (o2, 0), (o3, 0)]          # 'a\n' = the lines 'a' and '' (ends an indented block), then 'c'
    else:
        answers = [(o1, 1), (o3, 0)]
    child = Repl(answers, [c1, c2, c3])
    child.script.append(('data', lit(P1)))             # the REPL's first prompt
    with frozen_time():
        try:
            rw = RW.REPLWrapper(child, P1, None, continuation_prompt=P2)
            child.tmos = []
            if shape == 0:
                r1 = rw.run_command('a', timeout=T)
                r2 = rw.run_command('b', timeout=T)
                ok = (r1 == o1) and (r2 == o2) and child.lines == ['a', 'b']
                tag = 2
            elif shape == 1:
                r1 = rw.run_command('a\nb', timeout=T)
                r2 = rw.run_command('c', timeout=T)
                ok = (r1 == o1 + o2) and (r2 == o3) and child.lines == ['a', 'b', 'c']
                tag = 3
            elif shape == 3:
                r1 = rw.run_command('a\n\nb', timeout=T)
                ok = (r1 == o1 + o2 + o3) and child.lines == ['a', '', 'b']
                tag = 5
            elif shape == 4:
                r1 = rw.run_command('a\n', timeout=T)
                r2 = rw.run_command('c', timeout=T)
                ok = (r1 == o1 + o2) and (r2 == o3) and child.lines == ['a', '', 'c']
                tag = 6
            else:
                try:
                    rw.run_command('if x:', timeout=T)
                    return 0
                except ValueError:
                    pass
                if len(child.kills) != 1:
                    return 0
                r2 = rw.run_command('c', timeout=T)
                ok = (r2 == o3) and child.lines == ['if x:', 'c']
                tag = 4
        except Skip:
            return SKIP
    if not ok:
        return 0
    if len(child.script) != 0:
        return 0                                   # something the REPL printed was never consumed
    if not _tmos_ok(child, shape, T):
        return 0                                   # a wait for a prompt did not get the caller's timeout
    return tag


class _Pass:
    @staticmethod
    def decode(b, final=False):
        return b


def _drive(coro, child, loop):
    """play the event loop for one awaited run_command: whenever the coroutine waits for a prompt, hand the
    REPL's queued output to the protocol piece by piece until its future resolves"""
    cmd = None
    for _ in range(40):
        try:
            w = coro.send(cmd)
        except StopIteration as si:
            return si.value
        pw = child.async_pw_transport[0]
        while not pw.fut.done():
            if not child.script:
                raise Skip()                 # the REPL has nothing more to say: would wait for the timeout
            ev = child.script.pop(0)
            pw.data_received(ev[1])
        cmd = 'go'
    raise AssertionError('run_command did not finish')


@obligation(params=dict(o1=Text(1), o2=Text(1), o3=Text(1), c1=Int(0, 2), c2=Int(0, 2), c3=Int(0, 2), shape=Int(0, 4)),
            tags={2: 'two single-line commands', 3: 'a two-line command then a single-line one',
                  4: 'incomplete input: ValueError, then a normal command', 5: 'a three-line command',
                  6: 'a command ending with a newline (an extra empty line is sent)'},
            timeout=900, split=('shape', 'c1'), twin_timeout=150,
            thorough=dict(params=dict(o1=Text(2), o2=Text(2), o3=Text(2), c1=Int(0, 4), c2=Int(0, 4), c3=Int(0, 4)), timeout=3000),
            note='the awaited form run_command(..., async_=True) over a hand-driven event loop returns the same values '
                 '(same scripted REPL, output handed to the asyncio protocol piece by piece)')
def Q2_commands_async(o1, o2, o3, c1, c2, c3, shape, tmo=None):
    T = TMOS[(pick(c1, 0, 7) if tmo is None else tmo) % 3]
    import pexpect._async_w_await as AW
    from harness.C14 import FakeAsyncio, Loop
    shape = pick(shape, 0, 4)
    for o in (o1, o2, o3):
        if not _clean(o):
            return SKIP
    if shape == 0:
        answers = [(o1, 0), (o2, 0)]
    elif shape == 1:
        answers = [(o1, 1), (o2, 0), (o3, 0)]
    elif shape == 3:
        answers = [(o1, 1), (o2, 1), (o3, 0)]
    elif shape == 4:
        answers = [(o1, 1), (o2, 0), (o3, 0)]
    else:
        answers = [(o1, 1), (o3, 0)]
    child = Repl(answers, [c1, c2, c3])
    child._decoder = _Pass()
    child.script.append(('data', lit(P1)))
    loop = Loop()
    with frozen_time(), patched(AW, asyncio=FakeAsyncio, _loop_getter=(lambda: loop)):
        try:
            rw = RW.REPLWrapper(child, P1, None, continuation_prompt=P2)       # start-up synchronisation: blocking
            child.tmos = []
            if shape == 0:
                r1 = _drive(rw.run_command('a', timeout=T, async_=True), child, loop)
                r2 = _drive(rw.run_command('b', timeout=T, async_=True), child, loop)
                ok = (r1 == o1) and (r2 == o2) and child.lines == ['a', 'b']
                tag = 2
            elif shape == 1:
                r1 = _drive(rw.run_command('a\nb', timeout=T, async_=True), child, loop)
                r2 = _drive(rw.run_command('c', timeout=T, async_=True), child, loop)
                ok = (r1 == o1 + o2) and (r2 == o3) and child.lines == ['a', 'b', 'c']
                tag = 3
            elif shape == 3:
                r1 = _drive(rw.run_command('a\nb\nc', timeout=T, async_=True), child, loop)
                ok = (r1 == o1 + o2 + o3) and child.lines == ['a', 'b', 'c']
                tag = 5
            elif shape == 4:
                r1 = _drive(rw.run_command('a\n', timeout=T, async_=True), child, loop)
                r2 = _drive(rw.run_command('c', timeout=T, async_=True), child, loop)
                ok = (r1 == o1 + o2) and (r2 == o3) and child.lines == ['a', '', 'c']
                tag = 6
            else:
                try:
                    _drive(rw.run_command('if x:', timeout=T, async_=True), child, loop)
                    return 0
                except ValueError:
                    pass
                if len(child.kills) != 1:
                    return 0
                r2 = _drive(rw.run_command('c', timeout=T, async_=True), child, loop)
                ok = (r2 == o3) and child.lines == ['if x:', 'c']
                tag = 4
        except Skip:
            return SKIP
    if not ok:
        return 0
    if len(child.script) != 0:
        return 0
    if not _tmos_ok(child, shape, T):
        return 0
    return tag


def dry_runs():
    yield 'Q1_commands', dict(o1='x', o2='w', o3='yz', c1=1, c2=0, c3=2, shape=4)
    yield 'Q2_commands_async', dict(o1='x', o2='w', o3='yz', c1=1, c2=0, c3=2, shape=4)
    # one run per history shape INSIDE the quick tier's symbolic domain (outputs within the caps, interior cuts): they
    # also serve as witnesses for the vacuity tags when the solver's witness search runs out of budget on a busy machine
    for shape in range(5):
        yield 'Q1_commands', dict(o1='x', o2='w', o3='yz', c1=1, c2=0, c3=2, shape=shape)
        yield 'Q2_commands_async', dict(o1='x', o2='w', o3='y', c1=1, c2=0, c3=2, shape=shape)
    for shape in range(4):
        if shape == 3:
            yield 'Q1_commands', dict(o1='x', o2='', o3='yz', c1=1, c2=0, c3=2, shape=3)
            yield 'Q2_commands_async', dict(o1='x', o2='w', o3='yz', c1=1, c2=0, c3=2, shape=3)
            continue
        yield 'Q1_commands', dict(o1='x\r\n', o2='', o3='yz', c1=1, c2=0, c3=2, shape=shape)
        yield 'Q2_commands_async', dict(o1='x\r\n', o2='', o3='yz', c1=1, c2=0, c3=2, shape=shape)


PROBES = ['expect_core']      # representation probes (harness/probes.py) this harness depends on


MANIFEST_ENTRY = {
    'level_text': 'Bounded symbolic verification of the real REPLWrapper over the real expect_exact/Expecter/'
                  'searcher_string code and a scripted REPL: symbolic outputs (<=3 characters, any code points, not '
                  'containing a prompt), symbolic read cuts (also inside the prompt), histories of two commands incl. '
                  'multi-line (two and three lines, blocking and awaited) and incomplete input; return value == that command\'s output, ValueError + SIGINT + one '
                  're-synchronisation for incomplete input, nothing left unconsumed.',
    'level_note': 'Real bash/python prompt behaviour (A6) is outside the claim; the awaited form is driven over a hand-played event loop (Q2).',
}
