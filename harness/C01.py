"""C01 stream conservation: handed back ++ pending == received, at every step.

Inductive form: every step of every expect-family call (existing_data at the start of a
call, new_data per read, eof/timeout/errored at its end, the buffer setter between
calls) is run from an ARBITRARY state satisfying the representation invariant INV0
(pending text P, search buffer any suffix of P, stream positions at the end) with
arbitrary arguments; it must preserve `before+after+pending' == pending (+data)` and
INV0.  Histories of any length follow by induction; small public-API obligations
cross-check the composition.
"""
from symx.spec import obligation, Text, Bytes, Int, OptInt, Bool, SKIP
from symx.bstr import lit, tracing
from harness.common import (state_spawn, inv0, pending, AbsSearcher, AbsPat, LitPat, EndPat, Skip,
                            ScriptedSpawn, frozen_time, empty, pick, fake_re as _fake_re)
from pexpect.expect import Expecter, searcher_string, searcher_re
from pexpect.exceptions import EOF, TIMEOUT
import pexpect.spawnbase as SB
import pexpect.expect as E

ENCODES = ['pexpect.expect.Expecter.existing_data', 'pexpect.expect.Expecter.new_data',
           'pexpect.expect.Expecter.do_search', 'pexpect.expect.Expecter.eof',
           'pexpect.expect.Expecter.timeout', 'pexpect.expect.Expecter.errored',
           'pexpect.expect.Expecter.expect_loop',
           'pexpect.expect.searcher_string.search', 'pexpect.expect.searcher_re.search',
           'pexpect.spawnbase.SpawnBase._set_buffer', 'pexpect.spawnbase.SpawnBase._get_buffer',
           'pexpect.spawnbase.SpawnBase.expect_exact', 'pexpect.spawnbase.SpawnBase.expect_list',
           'pexpect.spawnbase.SpawnBase.readline', 'pexpect.spawnbase.SpawnBase.read']
STUBS = ['AbsSearcher: any searcher obeying the contract (miss, or 0<=start<=end<=len(window))',
         'AbsPat: compiled pattern whose search() returns None or any span with pos<=start<=end<=len(buffer)',
         'LitPat/EndPat: exact models of an escape-free literal and of \\Z',
         'ScriptedSpawn.read_nonblocking: scripted transport (documented extension point)',
         'pexpect.expect.time: frozen integer clock',
         'io.StringIO/BytesIO -> symx.bstr.PyBuf (validated against io.* each run)']
ASSUMPTIONS = ['A2: CPython re.search(buf,pos) returns a span with pos<=start<=end<=len(buf)',
               'strings longer than the stated caps are outside the claim',
               'CrossHair/z3 soundness; BStr encoding validated by exhaustive differential']
OUTSIDE = ['read(size>0) return value when a search window smaller than the pending text is in force']


def _match_ok(sp, total, sr_start, sr_end, window):
    """on a match: before+after+buffer == total, pending' == buffer', after == window[start:end]"""
    if not (sp.after == window[sr_start:sr_end]):
        return False
    if not (sp.before + sp.after + sp.buffer == total):
        return False
    if not (pending(sp) == sp.buffer):
        return False
    return inv0(sp, sp.buffer)


def _mk_L1(kind, S):
    @obligation(params=dict(P=S(5), cut=Int(0, 5), W=OptInt(1, 6), lb=Int(0, 3), hit=Bool(), a=Int(), b=Int()),
                tags={2: 'match', 3: 'miss', 4: 'zero-width match at the very end of a window shorter than pending',
                      5: 'match, window rebuilt from pending text'},
                timeout=150, tiers=('quick', 'thorough') if kind == 't' else ('thorough',),
                note='existing_data from any INV0 state, any searcher obeying the contract')
    def L1(P, cut, W, lb, hit, a, b):
        if cut > len(P):
            return SKIP
        sp = state_spawn(P, cut, W, kind)
        sr = AbsSearcher(hit, a, b, lb)
        ex = Expecter(sp, sr, -1)
        try:
            idx = ex.existing_data()
        except Skip:
            return SKIP
        if idx is None:
            if hit:
                return 0
            return 3 if inv0(sp, P) else 0
        window = sr.calls[0][0]
        if not _match_ok(sp, P, a, b, window):
            return 0
        if sp.match != 'MATCH-OBJECT' or sp.match_index != 0:
            return 0
        if a == len(window) and len(window) < len(P):
            return 4
        if cut > 0 and len(window) > len(P) - cut:
            return 5
        return 2
    L1.__name__ = 'L1_existing_abs_' + kind
    L1.obligation.name = L1.__name__
    return L1


def _mk_L2(kind, S):
    @obligation(params=dict(P=S(4), cut=Int(0, 4), D=S(3), W=OptInt(1, 5), lb=Int(0, 3), hit=Bool(), a=Int(), b=Int()),
                tags={2: 'match', 3: 'miss', 4: 'zero-width match at the end', 6: 'miss, buffer trimmed'},
                timeout=150, tiers=('quick', 'thorough') if kind == 't' else ('thorough',),
                note='new_data(D) from any INV0 state, any searcher obeying the contract')
    def L2(P, cut, D, W, lb, hit, a, b):
        if cut > len(P):
            return SKIP
        sp = state_spawn(P, cut, W, kind)
        sr = AbsSearcher(hit, a, b, lb)
        ex = Expecter(sp, sr, -1)
        try:
            idx = ex.new_data(D)
        except Skip:
            return SKIP
        total = P + D
        if idx is None:
            if hit:
                return 0
            if not inv0(sp, total):
                return 0
            return 6 if len(sp.buffer) < len(P) - cut + len(D) else 3
        window = sr.calls[0][0]
        if not _match_ok(sp, total, a, b, window):
            return 0
        if a == len(window):
            return 4
        return 2
    L2.__name__ = 'L2_new_abs_' + kind
    L2.obligation.name = L2.__name__
    return L2


for _k, _S in (('t', Text), ('b', Bytes)):
    for _mkf in (_mk_L1, _mk_L2):
        _f = _mkf(_k, _S)
        globals()[_f.__name__] = _f


@obligation(params=dict(P=Text(4), cut=Int(0, 4), D=Text(3), s1=Text(2, min=1), s2=Text(3, min=1), W=OptInt(1, 5),
                        fresh=Bool()),
            tags={2: 'match via new_data', 3: 'miss', 4: 'match via existing_data'}, timeout=400,
            note='real searcher_string with two symbolic patterns')
def L3_exact(P, cut, D, s1, s2, W, fresh):
    if cut > len(P):
        return SKIP
    sp = state_spawn(P, cut, W)
    sr = searcher_string([s1, s2])
    ex = Expecter(sp, sr, -1)
    if fresh:
        idx = ex.new_data(D)
        total = P + D
    else:
        idx = ex.existing_data()
        total = P
    if idx is None:
        return 3 if inv0(sp, total) else 0
    if idx != 0 and idx != 1:
        return 0
    pat = s1 if idx == 0 else s2
    if not (sp.after == pat) or not (sp.match == pat) or sp.match_index != idx:
        return 0
    if not (sp.before + sp.after + sp.buffer == total) or not (pending(sp) == sp.buffer):
        return 0
    if not inv0(sp, sp.buffer):
        return 0
    return 2 if fresh else 4


@obligation(params=dict(P=Text(4), cut=Int(0, 4), D=Text(3), W=OptInt(1, 5), fresh=Bool(),
                        h1=Bool(), a1=Int(), b1=Int(), h2=Bool(), a2=Int(), b2=Int(), zw=Bool()),
            tags={2: 'match', 3: 'miss', 4: 'end-anchor (zero-width) match'}, timeout=400,
            note='real searcher_re over two abstract compiled patterns (any spans) or a \\Z anchor')
def L3_regex(P, cut, D, W, fresh, h1, a1, b1, h2, a2, b2, zw):
    if cut > len(P):
        return SKIP
    sp = state_spawn(P, cut, W)
    p2 = EndPat() if zw else AbsPat(h2, a2, b2)
    sr = searcher_re([AbsPat(h1, a1, b1), p2])
    ex = Expecter(sp, sr, -1)
    try:
        if fresh:
            idx = ex.new_data(D)
            total = P + D
        else:
            idx = ex.existing_data()
            total = P
    except Skip:
        return SKIP
    if idx is None:
        if h1 or zw or h2:
            return 0
        return 3 if inv0(sp, total) else 0
    if not (sp.before + sp.after + sp.buffer == total) or not (pending(sp) == sp.buffer):
        return 0
    if not inv0(sp, sp.buffer):
        return 0
    if len(sp.after) != sr.end - sr.start:
        return 0
    if zw and idx == 1:
        return 4
    return 2


@obligation(params=dict(P=Text(5), cut=Int(0, 5), W=OptInt(1, 6), which=Int(0, 2), mark=Int(-1, 2)),
            tags={2: 'eof returns index', 3: 'eof raises', 4: 'timeout returns index', 5: 'timeout raises', 6: 'errored'},
            timeout=60, note='end-of-call steps from any INV0 state')
def L4_end_steps(P, cut, W, which, mark):
    if cut > len(P):
        return SKIP
    sp = state_spawn(P, cut, W)
    B0 = sp.buffer
    sr = AbsSearcher(False, 0, 0)
    sr.eof_index = mark
    sr.timeout_index = mark
    ex = Expecter(sp, sr, -1)
    if which == 0:
        try:
            r = ex.eof()
        except EOF:
            if mark >= 0:
                return 0
            ok = sp.before == P and len(pending(sp)) == 0 and len(sp.buffer) == 0 and sp.after is EOF \
                and sp.match is None and sp.match_index is None
            return 3 if ok else 0
        if mark < 0 or r != mark:
            return 0
        ok = sp.before == P and len(pending(sp)) == 0 and len(sp.buffer) == 0 and sp.after is EOF \
            and sp.match is EOF and sp.match_index == mark
        return 2 if ok else 0
    if which == 1:
        try:
            r = ex.timeout()
        except TIMEOUT:
            if mark >= 0:
                return 0
            ok = sp.before == P and inv0(sp, P) and sp.buffer == B0 and sp.after is TIMEOUT \
                and sp.match is None and sp.match_index is None
            return 5 if ok else 0
        if mark < 0 or r != mark:
            return 0
        ok = sp.before == P and inv0(sp, P) and sp.buffer == B0 and sp.after is TIMEOUT \
            and sp.match is TIMEOUT and sp.match_index == mark
        return 4 if ok else 0
    ex.errored()
    ok = sp.before == P and inv0(sp, P) and sp.buffer == B0 and sp.after is None and sp.match is None \
        and sp.match_index is None
    return 6 if ok else 0


@obligation(params=dict(P=Text(4), cut=Int(0, 4), V=Text(4), W=OptInt(1, 5), lb=Int(0, 3), D=Text(2)),
            tags={2: 'window is the assigned text', 3: 'window is its last W characters'}, timeout=90,
            note='buffer setter: the next call sees exactly the assigned text as pending')
def L5_setter(P, cut, V, W, lb, D):
    if cut > len(P):
        return SKIP
    sp = state_spawn(P, cut, W)
    sp.buffer = V
    if not (sp.buffer == V):
        return 0
    sr = AbsSearcher(False, 0, 0, lb)
    sr.timeout_index = 0
    ex = Expecter(sp, sr, -1)
    if ex.existing_data() is not None:
        return 0
    window = sr.calls[0][0]
    region = V if W is None else V[-W:]
    if not (window == region):
        return 0
    ex.timeout()
    if not (sp.before == V):
        return 0
    if not inv0(sp, V):
        return 0
    # ... and what is read afterwards is appended to it exactly once
    sr2 = AbsSearcher(False, 0, 0, lb)
    ex2 = Expecter(sp, sr2, -1)
    if ex2.existing_data() is not None or ex2.new_data(D) is not None:
        return 0
    if not inv0(sp, V + D):
        return 0
    return 2 if W is None or W >= len(V) else 3


def _lit_pat(s):
    if tracing():
        return LitPat(s)
    import re
    return re.compile(re.escape(s), re.DOTALL)


def _end_pat():
    if tracing():
        return EndPat()
    import re
    return re.compile(r'\Z')


@obligation(params=dict(S=Text(3), c1=Int(0, 3), s=Text(2, min=1), W1=OptInt(1, 2), W2=OptInt(1, 2),
                        end1=Int(0, 1), kind2=Int(0, 2)),
            tags={2: 'two calls, first matched', 3: 'first call TIMEOUT then second call', 4: 'first call EOF'},
            timeout=400, split=('end1', 'kind2'),
            thorough=dict(params=dict(S=Text(4), c1=Int(0, 4), W1=OptInt(1, 3), W2=OptInt(1, 3)),
                          split=('end1', 'kind2', 'W1'), timeout=600),
            note='public API: expect_exact then a second call (exact / literal regex / \\Z) with another window; '
                 'telescoping identity over both calls; stream cut into 2 reads at a symbolic position')
def L6_two_calls(S, c1, s, W1, W2, end1, kind2):
    if c1 > len(S):
        return SKIP
    D1, D2 = S[:c1], S[c1:]
    script = [('data', D1), ('data', D2), ('eof',) if end1 else ('timeout',)]
    sp = ScriptedSpawn(script)
    handed = lit('')
    with frozen_time():
        i = sp.expect_exact([s, EOF, TIMEOUT], timeout=5, searchwindowsize=W1 if W1 is not None else -1)
        if i == 0:
            handed = sp.before + sp.after
            tag = 2
        elif i == 1:
            # EOF: before is everything, nothing pending
            if not (sp.before == S) or len(sp.buffer) != 0:
                return 0
            return 4
        else:
            # TIMEOUT consumes nothing
            if not (sp.before == S):
                return 0
            tag = 3
        # second call, other window, other kind of search
        sp.searchwindowsize = W2
        if kind2 == 0:
            j = sp.expect_exact([s, EOF, TIMEOUT], timeout=5)
        elif kind2 == 1:
            j = sp.expect_list([_lit_pat(s), EOF, TIMEOUT], timeout=5)
        else:
            j = sp.expect_list([_end_pat(), EOF, TIMEOUT], timeout=5)
    got = sp.reads
    received = S if got >= 2 else D1
    if got >= 3 and not end1:
        pass
    if j == 0:
        handed = handed + sp.before + sp.after
        rest = sp.buffer
    else:
        rest = sp.before
        if j == 1 and len(sp.buffer) != 0:
            return 0
    if not (handed + rest == received):
        return 0
    return tag


@obligation(params=dict(S=Text(5), c1=Int(0, 5), how=Int(0, 5), n=Int(0, 6)),
            tags={2: 'readline pieces', 3: 'read(-1)', 4: 'readlines', 5: 'read(n) then read()', 6: 'read(n) repeatedly',
                  7: 'iteration'}, timeout=280, split=('how',),
            note='readline/readlines/iteration/read(-1)/read(n): returned pieces concatenate to the stream (2 reads '
                 'then EOF); read(n) returns exactly min(n, what is left) characters')
def L7_lines(S, c1, how, n=1):
    if c1 > len(S):
        return SKIP
    if how >= 3:
        return _read_n(S, c1, how, n)
    sp = ScriptedSpawn([('data', S[:c1]), ('data', S[c1:]), ('eof',)])
    sp.timeout = 5
    out = lit('')
    with frozen_time(), _fake_re():
        if how == 0:
            n = 0
            while n < 7:
                line = sp.readline()
                if not line:
                    break
                out = out + line
                n += 1
            if n >= 7:
                return 0
            tag = 2
        elif how == 1:
            out = sp.read()
            tag = 3
        else:
            for line in sp.readlines():
                out = out + line
            tag = 4
    if not (out == S):
        return 0
    if len(sp.buffer) != 0:
        return 0
    return tag


def _read_n(S, c1, how, n):
    how = pick(how, 3, 5)
    sp = ScriptedSpawn([('data', S[:c1]), ('data', S[c1:]), ('eof',)])
    sp.timeout = 5
    with frozen_time(), _fake_re():
        if how == 5:
            out = lit('')
            k = 0
            for line in sp:
                out = out + line
                k += 1
                if k > 7:
                    return 0
            if not (out == S) or len(sp.buffer) != 0:
                return 0
            return 7
        n = pick(n, 0, 6)
        first = sp.read(n)
        want = n if n < len(S) else len(S)
        if len(first) != want or not (first == S[:want]):
            return 0
        if how == 3:
            rest = sp.read()
            if not (first + rest == S) or len(sp.buffer) != 0:
                return 0
            return 5
        if n == 0:
            return SKIP
        out = first
        for _ in range(7):
            piece = sp.read(n)
            if len(piece) == 0:
                break
            if len(piece) > n:
                return 0
            out = out + piece
        else:
            return 0
        if not (out == S) or len(sp.buffer) != 0:
            return 0
        return 6


def dry_runs():
    yield 'L6_two_calls', dict(S='abc', c1=1, s='bc', W1=None, W2=2, end1=0, kind2=1)
    yield 'L6_two_calls', dict(S='abc', c1=2, s='zz', W1=1, W2=None, end1=1, kind2=0)
    for how in range(6):
        yield 'L7_lines', dict(S='a\r\nb', c1=2, how=how, n=2)
    yield 'L5_setter', dict(P='abc', cut=1, V='xy', W=None, lb=0, D='q')
    yield 'L4_end_steps', dict(P='abc', cut=1, W=None, which=0, mark=0)
    yield 'L4_end_steps', dict(P='abc', cut=1, W=2, which=1, mark=-1)
    yield 'L4_end_steps', dict(P='abc', cut=0, W=None, which=2, mark=-1)
    yield 'L3_regex', dict(P='ab', cut=0, D='c', W=None, fresh=True, h1=True, a1=1, b1=2, h2=False, a2=0, b2=0, zw=False)
    yield 'L3_exact', dict(P='ab', cut=0, D='c', s1='bc', s2='zz', W=None, fresh=True)


PROBES = ['expect_core']      # representation probes (harness/probes.py) this harness depends on


MANIFEST_ENTRY = {
    'level_text': 'Bounded symbolic verification of the real Expecter/searcher/SpawnBase code: every step of an '
                  'expect-family call (existing_data, new_data, eof, timeout, errored, buffer setter) is executed '
                  'symbolically from an arbitrary state satisfying the representation invariant, with arbitrary '
                  'pending text (<=5 chars, any code points), chunk, window size and searcher outcome; z3 discharges '
                  'every path, so histories of any length are covered by induction; public-API obligations (two '
                  'consecutive calls, readline/read/readlines) cross-check the composition on <=2 reads.',
    'level_note': 'Bounds: text caps 3-5 characters, <=2 patterns, W in None/1..6. Trusted: CrossHair+z3, the BStr '
                  'string encoding (differentially validated each run), CPython re contract (span within window).',
}
