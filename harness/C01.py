"""C01 stream conservation."""
from symx.spec import obligation, Text, Bytes, Int, OptInt, Bool, SKIP
from harness.common import state_spawn
from pexpect.expect import Expecter, searcher_string

ENCODES = ['pexpect.expect.Expecter.new_data', 'pexpect.expect.Expecter.do_search',
           'pexpect.expect.searcher_string.search']


@obligation(params=dict(P=Text(4), cut=Int(0, 4), D=Text(3), s=Text(2, min=1), W=OptInt(1, 5)),
            tags={2: 'match', 3: 'miss'}, timeout=120)
def L3_new_data_exact(P, cut, D, s, W):
    if cut > len(P):
        return SKIP
    sp = state_spawn(P, cut, W)
    ex = Expecter(sp, searcher_string([s]), -1)
    idx = ex.new_data(D)
    if idx is None:
        if sp._before.getvalue() == P + D:
            return 3
        return 0
    if (sp.before + sp.after + sp.buffer == P + D) and sp.after == s and sp._before.getvalue() == sp.buffer:
        return 2
    return 0
