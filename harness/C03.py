"""C03 no missed or late match: every incremental shortcut agrees with the naive
procedure "after each read, search all pending text (or its last W characters)".

Inductive form within one call (fixed pattern list, fixed W):
  INV0  search buffer B is a suffix of pending P, positions at the end
  exact, W None : J  no listed pattern occurs in P, and len(B) >= min(len(P), lookback)
  W set         : len(B) >= min(len(P), W)
  regex, W None : len(B) == len(P)
E1 existing_data from a bare INV0 state (whatever a previous call with another W or
   pattern list left behind) searches exactly the naive region, treats it all as fresh,
   and on a miss establishes the call invariant.
E2 new_data(D) from a call-invariant state gives the naive outcome on P+D and keeps the
   call invariant on a miss (real searcher_string / searcher_re).
E5 public API, <= 2 reads: outcome, read count, before/after/buffer equal the naive model.
"""
from symx.spec import obligation, Text, Int, OptInt, Bool, SKIP
from symx.bstr import lit, tracing
from harness.common import (state_spawn, inv0, pending, AbsSearcher, LitPat, Skip, ScriptedSpawn, frozen_time)
from pexpect.expect import Expecter, searcher_string, searcher_re
from pexpect.exceptions import EOF, TIMEOUT

ENCODES = ['pexpect.expect.Expecter.existing_data', 'pexpect.expect.Expecter.new_data',
           'pexpect.expect.Expecter.do_search', 'pexpect.expect.Expecter.expect_loop',
           'pexpect.expect.Expecter.__init__',
           'pexpect.expect.searcher_string.__init__', 'pexpect.expect.searcher_string.search',
           'pexpect.expect.searcher_re.search', 'pexpect.spawnbase.SpawnBase.expect_exact',
           'pexpect.spawnbase.SpawnBase.expect_list']
STUBS = ['LitPat: escape-free literal regex == leftmost find at or after pos',
         'ScriptedSpawn.read_nonblocking: scripted transport', 'pexpect.expect.time frozen',
         'io.StringIO -> PyBuf']
ASSUMPTIONS = ['W is None or a positive number (documented domain; W=0 excluded)',
               'A2: re.search(buf,pos) is leftmost at or after pos (LitPat models exactly that for literals)',
               'strings longer than the caps, more than 2 patterns: outside the claim']
OUTSIDE = ['regex semantics beyond escape-free literals', 'more than 2 reads per call in the end-to-end obligations']


def naive(full, pats, W):
    """(k, start, end) absolute in `full`, or None: leftmost occurrence in the naive region,
    lowest list position on ties."""
    region = full if W is None else full[-W:]
    base = len(full) - len(region)
    best = None
    for k, s in enumerate(pats):
        n = region.find(s)
        if n >= 0 and (best is None or n < best[1]):
            best = (k, n, len(s))
    if best is None:
        return None
    return (best[0], base + best[1], base + best[1] + best[2])


def _windowed(P, cut, W, Wi, via, searcher):
    """spawn + Expecter whose effective window is W: taken from the instance default (per-call -1) when `via`,
    else given per call while the instance default is some other value Wi, which must then play no role"""
    if via:
        sp = state_spawn(P, cut, W)
        return sp, Expecter(sp, searcher, -1)
    sp = state_spawn(P, cut, Wi)
    return sp, Expecter(sp, searcher, W)


def _min(a, b):
    return a if a < b else b


@obligation(params=dict(P=Text(5), blen=Int(0, 5), W=OptInt(1, 6), lb=Int(0, 3)),
            tags={2: 'window rebuilt from pending', 3: 'window from the search buffer', 4: 'no window, whole pending'},
            timeout=120, note='E1: existing_data searches exactly the naive region and re-establishes the call invariant')
def E1_existing_region(P, blen, W, lb, Wi=None, via=True):
    n = len(P)
    if blen > n:
        return SKIP
    r = AbsSearcher(False, 0, 0, lb)
    sp, ex = _windowed(P, n - blen, W, Wi, via, r)
    if ex.existing_data() is not None:
        return 0
    window, freshlen, sws = r.calls[0]
    region = P if W is None else P[-W:]
    if not (window == region):
        return 0
    if freshlen < len(window):        # everything has to be treated as fresh
        return 0
    if sws != W:
        return 0
    if not inv0(sp, P):
        return 0
    nb = len(sp.buffer)
    need = W if W is not None else (lb if lb else n)
    if nb < _min(n, need):
        return 0
    if W is None:
        return 4
    return 2 if blen < _min(n, W) else 3


def _e2(P, blen, D, pats, W, regex, Wi=None, via=True):
    n = len(P)
    if blen > n:
        return SKIP
    lookback = 0
    for s in pats:
        if len(s) > lookback:
            lookback = len(s)
    # call invariant
    if regex:
        if W is None:
            if blen != n:
                return SKIP
        elif blen < _min(n, W):
            return SKIP
        # a regex call re-searches the window, so an occurrence in the window would have been
        # reported by the previous step: assume none (state reachable inside one call)
        if naive(P, pats, W) is not None:
            return SKIP
    else:
        if W is None:
            for s in pats:
                if P.find(s) >= 0:
                    return SKIP
            if blen < _min(n, lookback):
                return SKIP
        else:
            if blen < _min(n, W):
                return SKIP
            if naive(P, pats, W) is not None:
                return SKIP
    if regex:
        sr = searcher_re([LitPat(s) for s in pats])
    else:
        sr = searcher_string(pats)
    sp, ex = _windowed(P, n - blen, W, Wi, via, sr)
    idx = ex.new_data(D)
    full = P + D
    ref = naive(full, pats, W)
    if ref is None:
        if idx is not None:
            return 0
        if not inv0(sp, full):
            return 0
        nb = len(sp.buffer)
        nf = len(full)
        if regex and W is None:
            return 3 if nb == nf else 0
        need = W if W is not None else lookback
        return 3 if nb >= _min(nf, need) else 0
    if idx is None or idx != ref[0]:
        return 0
    if not (sp.before == full[:ref[1]]):
        return 0
    if not (sp.after == full[ref[1]:ref[2]]):
        return 0
    if not (sp.buffer == full[ref[2]:]):
        return 0
    if ref[1] < n:
        return 4      # occurrence straddles the read boundary (starts in old text)
    return 2


@obligation(params=dict(P=Text(4), blen=Int(0, 4), D=Text(3), s1=Text(2, min=1), s2=Text(3, min=1), W=OptInt(1, 5)),
            tags={2: 'match inside new data', 3: 'miss, invariant kept', 4: 'match straddling the read boundary'},
            timeout=600, split=('W',),
            note='E2: exact searcher, two symbolic patterns, from any call-invariant state')
def E2_new_exact(P, blen, D, s1, s2, W, Wi=None, via=True):
    return _e2(P, blen, D, [s1, s2], W, False, Wi, via)


@obligation(params=dict(P=Text(4), blen=Int(0, 4), D=Text(3), s1=Text(2, min=1), s2=Text(2, min=1), W=OptInt(1, 5)),
            tags={2: 'match inside new data', 3: 'miss, invariant kept', 4: 'match straddling the read boundary'},
            timeout=600, split=('W',),
            note='E2: regex searcher over two literal patterns, from any call-invariant state')
def E2_new_regex(P, blen, D, s1, s2, W, Wi=None, via=True):
    return _e2(P, blen, D, [s1, s2], W, True, Wi, via)


def _lit_pat(s):
    if tracing():
        return LitPat(s)
    import re
    return re.compile(re.escape(s), re.DOTALL)


@obligation(params=dict(S=Text(3), c1=Int(0, 3), P0=Text(0), blen0=Int(0, 0), s1=Text(2, min=1), s2=Text(1, min=1),
                        W=OptInt(1, 3), regex=Bool(), end=Int(0, 1)),
            tags={2: 'match before any read', 3: 'match after first read', 4: 'match after second read',
                  5: 'EOF', 6: 'TIMEOUT'},
            timeout=500, split=('W', 'regex', 'end'), quick_omit_tags=(2,),
            thorough=dict(params=dict(S=Text(4), c1=Int(0, 4), P0=Text(1), blen0=Int(0, 1), s2=Text(2, min=1),
                                      W=OptInt(1, 4)), timeout=3000),
            note='E5: public API end to end vs the naive model: text P0 left pending by an earlier call (search '
                 'buffer any suffix), then 2 reads at a symbolic cut, then EOF/TIMEOUT')
def E5_end_to_end(S, c1, P0, blen0, s1, s2, W, regex, end, Wi=None, via=True):
    if c1 > len(S) or blen0 > len(P0):
        return SKIP
    chunks = [S[:c1], S[c1:]]
    sp = ScriptedSpawn([('data', chunks[0]), ('data', chunks[1]), ('eof',) if end else ('timeout',)])
    sp._before.write(P0)
    sp._buffer.write(P0[len(P0) - blen0:])
    pats = [s1, s2]
    # naive model
    pend = P0
    ref = naive(pend, pats, W)
    at = 0
    if ref is None:
        for c in chunks:
            pend = pend + c
            at += 1
            ref = naive(pend, pats, W)
            if ref is not None:
                break
    # the effective window W comes from the instance default (per-call -1) or is given per call while the
    # instance default is some other value Wi (which must then play no role)
    if via:
        sp.searchwindowsize = W
        callW = -1
    else:
        sp.searchwindowsize = Wi
        callW = W
    with frozen_time():
        if regex:
            i = sp.expect_list([_lit_pat(s1), _lit_pat(s2), EOF, TIMEOUT], timeout=5, searchwindowsize=callW)
        else:
            i = sp.expect_exact([s1, s2, EOF, TIMEOUT], timeout=5, searchwindowsize=callW)
    if ref is None:
        if i != (2 if end else 3):
            return 0
        if not (sp.before == pend):
            return 0
        return 5 if end else 6
    if i != ref[0]:
        return 0
    if sp.reads != at:
        return 0       # late (or early) report
    if not (sp.before == pend[:ref[1]]) or not (sp.after == pend[ref[1]:ref[2]]) or not (sp.buffer == pend[ref[2]:]):
        return 0
    return 2 + at


@obligation(params=dict(P=Text(4), blen=Int(0, 4), D=Text(2), s1=Text(2, min=1), s2=Text(1, min=1), W=OptInt(1, 4),
                        Wi=OptInt(1, 4), regex=Bool()),
            tags={2: 'match inside new data', 3: 'miss, invariant kept', 4: 'match straddling the read boundary'},
            timeout=600, split=('W', 'regex'),
            note='E6: the E2 step with the window given per call while the instance default is another value Wi: only '
                 'the per-call window may matter (added after a seeded change that handed the instance default to the '
                 'searcher was missed: the other obligations set the window through the instance default)')
def E6_percall_window(P, blen, D, s1, s2, W, Wi, regex):
    return _e2(P, blen, D, [s1, s2], W, regex, Wi, False)


@obligation(params=dict(P=Text(4), blen=Int(0, 4), W=OptInt(1, 5), lb=Int(0, 3), Wi=OptInt(1, 5)),
            tags={2: 'window rebuilt from pending', 3: 'window from the search buffer', 4: 'no window, whole pending'},
            timeout=120, note='E1 with the window given per call and another instance default')
def E6_existing_percall(P, blen, W, lb, Wi):
    return E1_existing_region(P, blen, W, lb, Wi, False)


@obligation(params=dict(S=Text(3), c1=Int(0, 3), s1=Text(2, min=1), s2=Text(1, min=1), W=OptInt(1, 3), Wi=OptInt(1, 3),
                        regex=Bool(), end=Int(0, 1)),
            tags={3: 'match after first read', 4: 'match after second read', 5: 'EOF', 6: 'TIMEOUT'},
            timeout=500, split=('W', 'regex'),
            note='E5 (public API, 2 reads) with the window given per call and another instance default')
def E6_api_percall(S, c1, s1, s2, W, Wi, regex, end):
    return E5_end_to_end(S, c1, lit(''), 0, s1, s2, W, regex, end, Wi, False)


def dry_runs():
    yield 'E6_percall_window', dict(P='xa', blen=2, D='b', s1='ab', s2='q', W=None, Wi=1, regex=False)
    yield 'E6_percall_window', dict(P='xa', blen=2, D='b', s1='ab', s2='q', W=3, Wi=1, regex=True)
    yield 'E6_api_percall', dict(S='abc', c1=1, s1='bc', s2='z', W=None, Wi=1, regex=False, end=0)
    yield 'E6_existing_percall', dict(P='abcd', blen=1, W=3, lb=2, Wi=None)
    for regex in (False, True):
        for end in (0, 1):
            yield 'E5_end_to_end', dict(S='abc', c1=1, P0='', blen0=0, s1='bc', s2='z', W=None, regex=regex, end=end)
    yield 'E2_new_regex', dict(P='xa', blen=2, D='b', s1='ab', s2='q', W=None)
    yield 'E2_new_exact', dict(P='xa', blen=2, D='b', s1='ab', s2='q', W=3)
    yield 'E1_existing_region', dict(P='abcd', blen=1, W=3, lb=2)


PROBES = ['expect_core']      # representation probes (harness/probes.py) this harness depends on


MANIFEST_ENTRY = {
    'level_text': 'Bounded symbolic verification that the incremental search (fresh-length offset, look-back '
                  'trimming, window selection and rebuilding) of the real Expecter/searcher code equals the naive '
                  'full re-search: one inductive step from an arbitrary call-invariant state (pending <=4-5 chars of '
                  'any code points, chunk <=3, two symbolic patterns, W None/1..6) plus public-API end-to-end '
                  'differentials over 2 reads from an arbitrary leftover state.',
    'level_note': 'Bounds as stated per obligation in the evidence; W=0 excluded (documented domain); regexes are '
                  'escape-free literals (leftmost-find model). Trusted: CrossHair+z3, BStr encoding (validated).',
}
